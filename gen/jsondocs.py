"""Generator of RFC 8259 documents + their denotation (python3 json with hooks). Used by C06."""
import json
import random
import struct

WS = [" ", "\t", "\n", "\r"]


class Gen:
    def __init__(self, seed):
        self.r = random.Random(seed)
        self.stats = {"escapes": {}, "planes": set(), "numerals": {}, "dup_docs": 0, "max_depth": 0}

    def ws(self):
        r = self.r
        if r.random() < 0.7:
            return ""
        return "".join(r.choice(WS) for _ in range(r.randint(1, 3)))

    def cp(self):
        r = self.r
        k = r.random()
        if k < 0.06:
            # code points whose low byte (or low 16 bits) is a character that matters to the scanner: a test that looks
            # at a truncated unit takes them for quotes, backslashes, brackets, control characters, digits or hex letters
            c = r.choice([0x0122, 0x015C, 0x012F, 0x015B, 0x015D, 0x017B, 0x017D, 0x012C, 0x013A, 0x0120, 0x0109, 0x010A,
                          0x010D, 0x0100, 0x011F, 0x0130, 0x0439, 0x0141, 0x0166, 0x0175, 0x4E22, 0x4E5C, 0x10022, 0x1005C,
                          0x1F600, 0x10000, 0x2005B])
        elif k < 0.3:
            c = r.randint(0x20, 0x7E)
        elif k < 0.5:
            c = r.randint(0x80, 0x7FF)
        elif k < 0.7:
            c = r.randint(0x800, 0xFFFF)
        elif k < 0.85:
            c = r.randint(0x10000, 0x4FFFF)
        else:
            c = r.randint(0x50000, 0x10FFFF)
        if 0xD800 <= c <= 0xDFFF:
            c = 0xE000
        return c

    def note(self, form):
        self.stats["escapes"][form] = self.stats["escapes"].get(form, 0) + 1

    def string_body(self):
        r = self.r
        out = []
        n = 0 if r.random() < 0.1 else r.randint(1, 8)
        if r.random() < 0.02:
            # long strings (with escapes): scratch buffers grow past their first capacity classes
            n = r.choice([130, 255, 256, 257, 300, 515, 1030])
            self.stats["long_strings"] = self.stats.get("long_strings", 0) + 1
        for _ in range(n):
            k = r.randint(0, 12)
            if k == 0:
                e = r.choice(['\\"', "\\\\", "\\/", "\\b", "\\f", "\\n", "\\r", "\\t"])
                out.append(e)
                self.note(e)
            elif k in (1, 2):
                c = self.cp()
                self.stats["planes"].add(c >> 16)
                up = r.random() < 0.5
                f = "\\u%04X" if up else "\\u%04x"
                if c < 0x10000:
                    out.append(f % c)
                    self.note("\\uXXXX" if up else "\\uxxxx")
                else:
                    v = c - 0x10000
                    out.append(f % (0xD800 + (v >> 10)) + (f if r.random() < 0.8 else ("\\u%04x" if up else "\\u%04X")) % (0xDC00 + (v & 0x3FF)))
                    self.note("pair")
            elif k in (3, 4, 5):
                c = self.cp()
                self.stats["planes"].add(c >> 16)
                if c in (0x22, 0x5C):
                    c = 0x61
                out.append(chr(c))
                self.note("raw")
            else:
                c = r.randint(0x20, 0x7E)
                if c in (0x22, 0x5C):
                    c = 0x2F  # '/' unescaped is legal
                out.append(chr(c))
        return "".join(out)

    def number(self):
        r = self.r
        k = r.randint(0, 9)
        cls = None
        if k == 0:
            s = "0"
            cls = "zero"
        elif k == 1:
            s = str(r.randint(0, 999))
            cls = "small-int"
        elif k == 2:
            s = str(r.getrandbits(r.randint(1, 64)))
            cls = "u64"
        elif k == 3:
            s = r.choice(["9007199254740991", "9007199254740992", "9007199254740993", "9223372036854775807",
                          "9223372036854775808", "18446744073709551615", "18446744073709551616",
                          "123456789012345678901234567890", "9223372036854775809", "10000000000000000000"])
            cls = "boundary"
        elif k in (4, 5):
            s = str(r.randint(0, 99999)) + "." + "".join(r.choice("0123456789") for _ in range(r.randint(1, 17)))
            cls = "fraction"
        elif k in (6, 7):
            m = str(r.randint(1, 9))
            if r.random() < 0.5:
                m += "." + "".join(r.choice("0123456789") for _ in range(r.randint(1, 16)))
            e = r.randint(-300, 300)
            s = m + r.choice("eE") + (r.choice(["", "+"]) if e >= 0 else "-") + str(abs(e))
            cls = "exponent"
        elif k == 8:
            s = r.choice(["0.0", "0e0", "0.000", "0E+5", "0.0e-3"])
            cls = "zero-forms"
        else:
            s = str(r.randint(0, 10 ** r.randint(1, 19)))
            cls = "int"
        if cls in ("boundary", "u64", "int") and r.random() < 0.35:
            # long integer mantissas (18..21 digits, around 2^63 and 2^64) continued by a fraction and/or an exponent with
            # either letter: the integer fast path has to hand over to the real path at exactly the right digit
            if len(s) < 18 and r.random() < 0.7:
                s = r.choice(["1", "9", "18", "99", "10"]) + "".join(r.choice("0123456789") for _ in range(r.randint(17, 19)))
            tail = ""
            if r.random() < 0.5:
                tail += "." + "".join(r.choice("0123456789") for _ in range(r.randint(1, 4)))
            if r.random() < 0.7 or not tail:
                tail += r.choice("eE") + r.choice(["", "+", "-"]) + str(r.randint(0, 30))
            s += tail
            cls = "long-mantissa-real"
        if r.random() < 0.3:
            s = "-" + s
            cls += "-neg"
        self.stats["numerals"][cls] = self.stats["numerals"].get(cls, 0) + 1
        return s

    def value(self, depth, maxd):
        r = self.r
        self.stats["max_depth"] = max(self.stats["max_depth"], depth)
        k = r.randint(0, 5 if depth >= maxd else 8)
        if k == 0:
            return "true"
        if k == 1:
            return "false"
        if k == 2:
            return "null"
        if k in (3, 4):
            return self.number()
        if k == 5:
            return '"' + self.string_body() + '"'
        if k in (6, 7):
            return self.array(depth, maxd)
        return self.obj(depth, maxd)

    def array(self, depth, maxd):
        r = self.r
        n = 0 if r.random() < 0.15 else r.randint(1, 5)
        items = [self.ws() + self.value(depth + 1, maxd) + self.ws() for _ in range(n)]
        return "[" + (",".join(items) if items else self.ws()) + "]"

    def obj(self, depth, maxd):
        r = self.r
        n = 0 if r.random() < 0.15 else r.randint(1, 5)
        items = []
        keys = []
        for _ in range(n):
            if keys and r.random() < 0.2:
                k = r.choice(keys)
                self.dup = True
            elif r.random() < 0.04:
                # names with equal hashes where the stored name is a prefix of the later one (see harness/jsongen.hpp)
                a, b = r.choice([("s", "sh"), ("t", "ti"), ("l", "la"), ("X", "X\\u0000\\u0000"), ("M", "M\\u0000\\u0000\\u0000"), ("", "\\u0000")])
                if a in keys or b in keys:
                    self.dup = True
                keys.append(a)
                items.append(self.ws() + '"' + a + '"' + self.ws() + ":" + self.ws() + self.value(depth + 1, maxd) + self.ws())
                k = b
                keys.append(k)
            else:
                k = self.string_body()
                keys.append(k)
            items.append(self.ws() + '"' + k + '"' + self.ws() + ":" + self.ws() + self.value(depth + 1, maxd) + self.ws())
        return "{" + (",".join(items) if items else self.ws()) + "}"

    def doc(self):
        r = self.r
        self.dup = False
        maxd = r.choice([1, 2, 3, 4, 6, 8])
        if r.random() < 0.02:
            # deep chain up to 64
            d = r.randint(9, 64)
            inner = self.value(d, d)
            s = inner
            for i in range(d):
                s = ("[" + self.ws() + s + "]") if (i + r.randint(0, 1)) % 2 else ('{"' + self.string_body() + '":' + s + self.ws() + "}")
            self.stats["max_depth"] = max(self.stats["max_depth"], d)
            body = s
        else:
            body = self.array(0, maxd) if r.random() < 0.5 else self.obj(0, maxd)
        if self.dup:
            self.stats["dup_docs"] += 1
        return self.ws() + body + self.ws()


# ------------------------------------------------------------------ denotation
class Num:
    __slots__ = ("text",)

    def __init__(self, text):
        self.text = text


def _pairs(pairs):
    # last value wins at the first key's position
    out = {}
    for k, v in pairs:
        out[k] = v
    return ("obj", [(k, v) for k, v in out.items()])


def denote(text):
    return json.loads(text, parse_int=Num, parse_float=Num, object_pairs_hook=_pairs)


def dbits(x):
    return struct.unpack("<Q", struct.pack("<d", x))[0]


def expected_number(text):
    """-> ('U', int) | ('I', int) | ('D', bits)"""
    is_int = not any(c in text for c in ".eE")
    if is_int:
        v = int(text)
        if text.startswith("-") and v == 0:
            return ("D", dbits(-0.0))
        if 0 <= v <= 2 ** 64 - 1:
            return ("U", v)
        if -2 ** 63 <= v < 0:
            return ("I", v)
    return ("D", dbits(float(text)))
