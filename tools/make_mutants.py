#!/usr/bin/env python3
"""Creates mutants/*.patch from (file, old, new) replacement specs against /repo HEAD (scratch worktree, removed after)."""
import os
import subprocess
import sys

SPECS = {
    # C01
    "C01_loop_items_single_slot": ("Include/Template.hpp", "            while (loops_items_->Size() <= tag.Level) {", "            if (loops_items_->Size() <= tag.Level) {"),
    "C04_remainder_guard_dropped": ("Include/Template.hpp", "                if (right.RemainderDivisor() != 0) {\n                    left.Value.Number.Integer = (left % right);", "                if (true) {\n                    left.Value.Number.Integer = (left % right);"),
    "C01_finder_word_end": ("Include/Finder.hpp", "if ((word_end_offset < length_) && (content_[word_end_offset] == word[word_length])) {", "if ((word_end_offset <= length_) && (content_[word_end_offset] == word[word_length])) {"),
    # C02
    "C02_else_if_falls_through": ("Include/Template.hpp", "                if (item->Case.IsEmpty() || (evaluate(result, expr, QOperation::NoOp) && (result > 0U))) {\n                    render(item->SubTags.First(), item->SubTags.End(), item->Offset, item->EndOffset);\n                    break;\n                }", "                if (item->Case.IsEmpty() || (evaluate(result, expr, QOperation::NoOp) && (result > 0U))) {\n                    render(item->SubTags.First(), item->SubTags.End(), item->Offset, item->EndOffset);\n                    if (item->Case.IsEmpty()) {\n                        break;\n                    }\n                }"),
    "C02_literal_slice_off_by_one": ("Include/Template.hpp", "        writeSlice(offset, t_offset);\n        offset = t_offset;\n        offset += length;\n\n        const Value_T *value = getValue(tag);\n\n        if ((value == nullptr) ||\n            !(value->CopyValueTo(*stream_, {Config::TemplatePrecision, QENTEM_TEMPLATE_DOUBLE_FORMAT},\n                                 &(StringUtils", "        writeSlice(offset, t_offset);\n        offset = t_offset;\n        offset += length;\n        offset -= SizeT(tag.Length == SizeT16{9});\n\n        const Value_T *value = getValue(tag);\n\n        if ((value == nullptr) ||\n            !(value->CopyValueTo(*stream_, {Config::TemplatePrecision, QENTEM_TEMPLATE_DOUBLE_FORMAT},\n                                 &(StringUtils"),
    "C02_loop_var_wrong_level": ("Include/Template.hpp", "                tag.IDLength = loop_tag->ValueLength;\n                tag.Level    = loop_tag->Level;", "                tag.IDLength = loop_tag->ValueLength;\n                tag.Level    = ((loop_tag->Parent != nullptr) && (loop_tag->Parent->Parent != nullptr)) ? loop_tag->Parent->Level : loop_tag->Level;"),
    "C07_unclosed_array_at_end_accepted": ("Include/JSON.hpp", "                        if (ch == JSONotation::ESquareChar) {\n                            ++offset;\n                            return value;\n                        }\n                    }\n\n                    break;", "                        if (ch == JSONotation::ESquareChar) {\n                            ++offset;\n                            return value;\n                        }\n                    } else if (arr->Size() > SizeT{2}) {\n                        return value;\n                    }\n\n                    break;"),
    "C08_close_bracket_appended": ("Include/Value.hpp", "        if ((last != nullptr) && (*last == JSONotation::CommaChar)) {\n            *last = JSONotation::ESquareChar;\n        } else {", "        if ((last != nullptr) && (*last == JSONotation::CommaChar) && (arr.Size() != SizeT{5})) {\n            *last = JSONotation::ESquareChar;\n        } else {"),
    "C09_nineteen_digit_window": ("Include/Digit.hpp", "                                if ((number.Natural > 0x1999999999999999ULL) ||\n                                    ((number.Natural == 0x1999999999999999ULL) &&\n                                     (digit > DigitUtils::DigitChar::Five))) {", "                                if ((number.Natural > 0x1999999999999999ULL) ||\n                                    ((number.Natural == 0x1999999999999999ULL) &&\n                                     (digit > DigitUtils::DigitChar::Seven))) {"),
    # C03
    "C03_amp_lookahead": ("Include/StringUtils.hpp", "                    if ((rem_length > SizeT{4}) && (n_str[SizeT{4}] == HTMLSpecialChars::SemicolonChar) &&", "                    if ((rem_length >= SizeT{4}) && (n_str[SizeT{4}] == HTMLSpecialChars::SemicolonChar) &&"),
    "C03_loop_key_unescaped": ("Include/Template.hpp", "                if (key.Length() != 0) {\n                    StringUtils::EscapeHTMLSpecialChars(*stream_, key.First(), key.Length());", "                if (key.Length() != 0) {\n                    stream_->Write(key.First(), key.Length());"),
    # C04
    "C04_unsigned_compare_mixed": ("Include/QExpression.hpp", "    bool operator>(const QExpression &right) const noexcept {\n        switch (Type) {\n            case ExpressionType::NaturalNumber: {\n                if (right.Type == ExpressionType::RealNumber) {\n                    return (double(Value.Number.Natural) > right.Value.Number.Real);\n                }\n\n                return (Value.Number.Integer > right.Value.Number.Integer);", "    bool operator>(const QExpression &right) const noexcept {\n        switch (Type) {\n            case ExpressionType::NaturalNumber: {\n                if (right.Type == ExpressionType::RealNumber) {\n                    return (double(Value.Number.Natural) > right.Value.Number.Real);\n                }\n\n                return (Value.Number.Natural > right.Value.Number.Natural);"),
    "C04_division_guard_dropped": ("Include/Template.hpp", "                if (right != 0ULL) {\n                    left /= right;\n                    break;\n                }\n\n                return false;", "                left /= right;\n                break;"),
    # C05
    "C05_array_bound": ("Include/JSON.hpp", "            if (offset >= length) {\n                // Truncated right after '['.\n                value.Reset();\n                return value;\n            }", "            if (offset > length) {\n                // Truncated right after '['.\n                value.Reset();\n                return value;\n            }"),
    "C05_key_length": ("Include/JSON.hpp", "SizeT         len = JSONUtils::UnEscape(str, (length - offset), stream);\n\n                    if (len != 0) {\n                        offset += len;\n                        --len;\n\n                        if (stream.IsNotEmpty()) {\n                            str = stream.First();\n                            len = stream.Length();\n                            stream.Clear();\n                        }\n\n                        StringUtils::TrimLeft(content, offset, length);\n\n                        if ((offset < length)", "SizeT         len = JSONUtils::UnEscape(str, length, stream);\n\n                    if (len != 0) {\n                        offset += len;\n                        --len;\n\n                        if (stream.IsNotEmpty()) {\n                            str = stream.First();\n                            len = stream.Length();\n                            stream.Clear();\n                        }\n\n                        StringUtils::TrimLeft(content, offset, length);\n\n                        if ((offset < length)"),
    # C06
    "C06_solidus_escape_rejected": ("Include/JSONUtils.hpp", "                        case JSONotation::QuoteChar:\n                        case JSONotation::BSlashChar:\n                        case JSONotation::SlashChar: {\n                            stream += ch;\n                            break;\n                        }\n\n                        case JSONotation::B_Char: {", "                        case JSONotation::QuoteChar:\n                        case JSONotation::BSlashChar: {\n                            stream += ch;\n                            break;\n                        }\n\n                        case JSONotation::B_Char: {"),
    "C06_surrogate_mask": ("Include/JSONUtils.hpp", "if ((code & 0xFC00U) != 0xD800U) {", "if ((code & 0xFE00U) != 0xD800U) {"),
    # C07
    "C07_nested_failure_continues": ("Include/JSON.hpp", "                // Malformed: nothing after this point can be trusted, fail the whole document.\n                value.Reset();\n                offset = length;\n                return value;\n            }\n\n            ++offset;\n            return value;\n        }\n\n        static ValueT parseValue(", "                // Malformed: nothing after this point can be trusted, fail the whole document.\n                value.Reset();\n                ++offset;\n                return value;\n            }\n\n            ++offset;\n            return value;\n        }\n\n        static ValueT parseValue("),
    # C08
    "C08_precision_16": ("Include/Value.hpp", "                Digit::NumberToString(stream, val.number_.Real, precision);", "                Digit::NumberToString(stream, val.number_.Real, ((precision > 16U) ? 16U : precision));"),
    # C09
    "C09_negative_zero_sign": ("Include/Digit.hpp", "                    if (number.Natural == 0) {\n                        number.Natural |= 0x8000000000000000LL;\n                        return QNumberType::Real;\n                    }", "                    if (number.Natural == 0) {\n                        return QNumberType::Real;\n                    }"),
    # C10
    "C10_half_up": ("Include/Digit.hpp", "               (round_up || ((index < stream.Length()) &&\n                             ((SizeT32(stream.First()[index] - DigitUtils::DigitChar::Zero) & 1U) == 1U))))));", "               (round_up || ((index < stream.Length()) &&\n                             ((SizeT32(stream.First()[index] - DigitUtils::DigitChar::Zero) & 1U) <= 1U))))));"),
    # C11
    "C11_power_table": ("Include/Digit.hpp", "        b_int >>= (bit - SizeT32{53});\n        number = SizeT64(b_int);\n        // }", "        b_int >>= (bit - SizeT32{53});\n        number = (SizeT64(b_int) & ~SizeT64{2});\n        // }"),
    # C12
    # (the earlier "skip reset() for the same kind" variant was equivalent: the members' own move assignment releases the old content)
    "C12_move_assign_keeps_number_source": ("Include/Value.hpp", "            val.setTypeToUndefined();\n\n            reset();\n            setType(type);", "            if (type < ValueType::UIntLong) {\n                val.setTypeToUndefined();\n            }\n\n            reset();\n            setType(type);"),
    "C12_merge_copies_undefined": ("Include/Value.hpp", "            while (src_val < end) {\n                if (!(src_val->isUndefined())) {\n                    array_ += *src_val;\n                }\n\n                ++src_val;\n            }", "            while (src_val < end) {\n                array_ += *src_val;\n                ++src_val;\n            }"),
    # C13
    "C13_remove_no_relink": ("Include/HashTable.hpp", "            if (item != nullptr) {\n                *index     = item->Next;\n                item->Next = 0;\n                item->Hash = 0;", "            if (item != nullptr) {\n                *index     = 0;\n                item->Next = 0;\n                item->Hash = 0;"),
    # C14
    "C14_simd_tail": ("Include/Memory.hpp", "            const Platform::SIMD::VAR_T *end    = (m_form + m_size);\n\n            do {\n                Platform::SIMD::Store(m_to, Platform::SIMD::Load(m_form));", "            const Platform::SIMD::VAR_T *end    = (m_form + m_size);\n            offset += (size & Number_T{1}) & Number_T(m_size > 7);\n\n            do {\n                Platform::SIMD::Store(m_to, Platform::SIMD::Load(m_form));"),
    # C15
    "C15_sort_no_rehash": ("Include/HashTable.hpp", "        Memory::SetToZero(getHashTable(), (size * Capacity()));\n        generateHash();\n    }\n\n    // Removes excess storage.", "        if (Size() > SizeT{2}) {\n            Memory::SetToZero(getHashTable(), (size * Capacity()));\n            generateHash();\n        }\n    }\n\n    // Removes excess storage."),
    "C15_partition_skips_last": ("Include/Memory.hpp", "        while (offset < end) {\n            if (Ascend_T) {", "        while ((offset + Number_T((end - start) > Number_T{6})) < end) {\n            if (Ascend_T) {"),
    "C18_null_key_not_dropped": ("Include/Value.hpp", "                                if (!(obj_item->Key.IsEqual(key, length))) {\n                                    new_sub_obj[obj_item->Key] = obj_item->Value;", "                                if (!(obj_item->Key.IsEqual(key, length)) || obj_item->Value.isNull()) {\n                                    new_sub_obj[obj_item->Key] = obj_item->Value;"),
    "C19_index_after_carry": ("Include/BigInt.hpp", "            if (index > MaxIndex()) {\n                index_ = 0;\n            } else if (index > index_) {\n                index_ = index;\n            }", "            if (index > MaxIndex()) {\n                index_ = 0;\n            } else if (index > (index_ + 1U)) {\n                index_ = index;\n            }"),
    "C13_rename_same_chain": ("Include/HashTable.hpp", "                    *right_index = *left_index;\n                    *left_index  = item->Next;\n                    item->Next   = 0;", "                    *left_index  = item->Next;\n                    *right_index = SizeT(index + 1U);\n                    item->Next   = 0;"),
    "C14_stream_insert_null": ("Include/StringStream.hpp", "    void InsertNull() {\n        if (Capacity() == Length()) {", "    void InsertNull() {\n        if (Capacity() < Length()) {"),
    # C16
    "C16_merge_move_key_leak": ("Include/HArray.hpp", "                    storage_item->Value = Memory::Move(src_item->Value);\n                    Memory::Dispose(&(src_item->Key));", "                    storage_item->Value = Memory::Move(src_item->Value);"),
    # C17
    "C17_static_scratch": ("Include/Template.hpp", "    void renderMath(const MathTag &tag, SizeT &offset) const {\n        const QExpression *expr = tag.Expressions.First();\n        QExpression        result;", "    void renderMath(const MathTag &tag, SizeT &offset) const {\n        const QExpression *expr = tag.Expressions.First();\n        static QExpression result;"),
    # C18
    # C19
    # C20
    "C20_plus_10000": ("Include/JSONUtils.hpp", "                                    code += 0x10000U;\n", "                                    code += 0x10000U & ~(code >> 3U & 0x10000U);\n"),
}


def main():
    wt = "/tmp/mutwt"
    subprocess.run(["git", "-C", "/repo", "worktree", "remove", "--force", wt], capture_output=True)
    subprocess.run(["git", "-C", "/repo", "worktree", "add", "-q", "--detach", wt, "HEAD"], check=True)
    out = os.path.join(os.path.dirname(os.path.dirname(os.path.abspath(__file__))), "mutants")
    bad = 0
    try:
        for name, (f, old, new) in sorted(SPECS.items()):
            p = os.path.join(wt, f)
            s = open(p).read()
            if s.count(old) != 1:
                print("SPEC DOES NOT APPLY (%d matches): %s" % (s.count(old), name))
                bad += 1
                continue
            open(p, "w").write(s.replace(old, new))
            d = subprocess.run(["git", "-C", wt, "diff"], capture_output=True, text=True).stdout
            open(os.path.join(out, name + ".patch"), "w").write(d)
            subprocess.run(["git", "-C", wt, "checkout", "-q", "--", "."], check=True)
    finally:
        subprocess.run(["git", "-C", "/repo", "worktree", "remove", "--force", wt], capture_output=True)
    print("%d mutants written, %d specs failed" % (len(SPECS) - bad, bad))
    return 1 if bad else 0


if __name__ == "__main__":
    sys.exit(main())
