#!/usr/bin/env python3
"""Confirms a sub-agent's seeded change independently and stores it as /verif/seeded/<name>/.
usage: adopt_seeded.py <name> <property> <dir with patch.diff demo.cpp README.md> "<what it needs to manifest>"
Steps: patch applies to /repo HEAD in a scratch worktree; the repository's 15 tests pass with it; the demo (ASan+UBSan build)
fails with it and passes without it. Nothing is ever applied to /repo itself."""
import json
import os
import shutil
import subprocess
import sys

HERE = os.path.dirname(os.path.dirname(os.path.abspath(__file__)))
WT = "/tmp/adopt_wt"


def sh(cmd, env=None):
    return subprocess.run(cmd, shell=True, capture_output=True, text=True, env=env)


def main():
    name, prop, src, needs = sys.argv[1:5]
    sh("git -C /repo worktree remove --force %s; rm -rf %s" % (WT, WT))
    assert sh("git -C /repo worktree add -q --detach %s HEAD" % WT).returncode == 0
    ran = []
    try:
        flags = "-std=c++17 -g -O1 -fsanitize=address,undefined -fno-sanitize-recover=undefined " + os.environ.get("ADOPT_FLAGS", "")
        env = dict(os.environ, ASAN_OPTIONS="detect_leaks=1:abort_on_error=0", UBSAN_OPTIONS="print_stacktrace=1")
        demo = os.path.join(src, "demo.cpp")
        c0 = sh("g++ %s -I %s/Include %s -o /tmp/adopt_demo0 -pthread" % (flags, WT, demo))
        r0 = sh("timeout 300 /tmp/adopt_demo0", env)
        ran.append("unchanged tree: demo exit %d" % r0.returncode)
        ap = sh("git -C %s apply %s" % (WT, os.path.join(src, "patch.diff")))
        if ap.returncode != 0:
            print("patch does not apply:", ap.stderr)
            return 1
        tb = sh("QENTEM_REPO=%s VERIF_BASELINE_DIR=/tmp/adopt_bl %s/tools/baseline_off.sh" % (WT, HERE))
        tests_ok = "100% tests passed" in tb.stdout
        ran.append("with the change: repository tests %s" % ("15/15 pass" if tests_ok else "FAIL"))
        c1 = sh("g++ %s -I %s/Include %s -o /tmp/adopt_demo1 -pthread" % (flags, WT, demo))
        r1 = sh("timeout 300 /tmp/adopt_demo1", env)
        ran.append("with the change: demo exit %d" % r1.returncode)
        print("\n".join(ran))
        if c0.returncode or c1.returncode:
            print("demo does not compile", c0.stderr[-500:], c1.stderr[-500:])
            return 1
        ok = tests_ok and r0.returncode == 0 and r1.returncode != 0
        if not ok:
            print("NOT CONFIRMED")
            return 1
        dst = os.path.join(HERE, "seeded", name)
        os.makedirs(dst, exist_ok=True)
        for f in ("patch.diff", "demo.cpp", "README.md"):
            if os.path.exists(os.path.join(src, f)):
                shutil.copy(os.path.join(src, f), os.path.join(dst, f))
        json.dump({"property": prop, "needs_to_manifest": needs, "origin": "independent sub-agent given only the property text and a scratch worktree",
                   "confirmed_by": ["patch applies to /repo HEAD (scratch worktree)", "repository test suite (15 tests, RelWithDebInfo) passes with the change",
                                    "demo.cpp built with -fsanitize=address,undefined exits 0 on the unchanged tree and %d with the change" % r1.returncode],
                   "commands": ["tools/adopt_seeded.py %s %s <dir>" % (name, prop)]}, open(os.path.join(dst, "meta.json"), "w"), indent=1)
        print("CONFIRMED -> seeded/%s" % name)
        return 0
    finally:
        sh("git -C /repo worktree remove --force %s; rm -rf %s /tmp/adopt_bl /tmp/adopt_demo0 /tmp/adopt_demo1" % (WT, WT))


if __name__ == "__main__":
    sys.exit(main())
