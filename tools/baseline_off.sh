#!/bin/sh
# Builds the repository's own test suite WITHOUT the verification guard and runs it (15 tests expected).
set -e
REPO="${QENTEM_REPO:-/repo}"
OUT="${VERIF_BASELINE_DIR:-/verif/build/baseline_off}"
rm -rf "$OUT"
mkdir -p "$OUT"
GEN=""
if command -v ninja >/dev/null 2>&1; then GEN="-G Ninja"; fi
cmake $GEN -S "$REPO" -B "$OUT" -DCMAKE_BUILD_TYPE=RelWithDebInfo >"$OUT/configure.log" 2>&1 || { cat "$OUT/configure.log"; exit 2; }
cmake --build "$OUT" -j16 >"$OUT/build.log" 2>&1 || { tail -50 "$OUT/build.log"; exit 2; }
ctest --test-dir "$OUT" -j8 --timeout "${VERIF_CTEST_TIMEOUT:-900}"
