#!/usr/bin/env python3
"""Delta-debugging reducer for template texts: keeps shrinking while the sanitizer still reports the same kind."""
import subprocess, sys, os
binp, path, needle = sys.argv[1], sys.argv[2], sys.argv[3]
idx = sys.argv[4] if len(sys.argv) > 4 else "0"
env = dict(os.environ, ASAN_OPTIONS="detect_leaks=0:handle_sigfpe=1")
def bad(t):
    open("/tmp/red.tpl", "wb").write(t)
    try:
        r = subprocess.run([binp, "/tmp/red.tpl", idx], capture_output=True, env=env, timeout=20)
    except subprocess.TimeoutExpired:
        return needle == "TIMEOUT"
    return needle.encode() in r.stderr
t = open(path, "rb").read()
assert bad(t), "does not reproduce"
n = 2
while len(t) >= 2:
    chunk = max(1, len(t) // n)
    for i in range(0, len(t), chunk):
        c = t[:i] + t[i + chunk:]
        if bad(c):
            t = c
            n = max(n - 1, 2)
            break
    else:
        if chunk == 1:
            break
        n = min(n * 2, len(t))
print(repr(t))
os.unlink("/tmp/red.tpl")
