#!/usr/bin/env python3
"""Self-validation: applies each patch of mutants/ (or seeded/<id>/patch.diff) to a scratch worktree of /repo, confirms the
repository's own 15 tests still pass, runs the property's quick check against it (QENTEM_REPO) and expects exit 1.
Usage: tools/selftest_mutants.py [name-prefix ...]     results -> selftest_results.json (and a table on stdout)"""
import glob
import json
import os
import re
import subprocess
import sys
import time

HERE = os.path.dirname(os.path.dirname(os.path.abspath(__file__)))
WT = "/tmp/selftest_wt"


def sh(cmd, **kw):
    return subprocess.run(cmd, shell=True, capture_output=True, text=True, **kw)


def main():
    want = sys.argv[1:]
    items = []
    for p in sorted(glob.glob(os.path.join(HERE, "mutants", "*.patch"))):
        name = os.path.basename(p)[:-6]
        items.append((name, name.split("_")[0], p))
    for p in sorted(glob.glob(os.path.join(HERE, "seeded", "*", "patch.diff"))):
        sid = os.path.basename(os.path.dirname(p))
        meta = json.load(open(os.path.join(os.path.dirname(p), "meta.json")))
        items.append(("seeded/" + sid, meta["property"], p))
    all_names = {it[0] for it in items}
    if want:
        items = [it for it in items if any(it[0].startswith(w) or it[1] == w for w in want)]
    results = []
    jobs = int(os.environ.get("SELFTEST_JOBS", "1"))
    if jobs > 1:
        import concurrent.futures as cf
        with cf.ThreadPoolExecutor(max_workers=jobs) as ex:
            futs = [ex.submit(one, it, None) for it in items]
            for f in futs:
                results.append(f.result())
    else:
        for it in items:
            results.append(one(it, None))
    out = os.path.join(HERE, "selftest_results.json")
    old = []
    if os.path.exists(out) and want:
        old = [r for r in json.load(open(out)) if r["name"] not in {x["name"] for x in results} and r["name"] in all_names]
    json.dump(old + results, open(out, "w"), indent=1)
    return 0


def one(item, _unused):
    import threading
    name, prop, patch = item
    WT = "/tmp/selftest_wt_%d" % (threading.get_ident() % 100000)
    BL = "/tmp/selftest_bl_%d" % (threading.get_ident() % 100000)
    if True:
        sh("git -C /repo worktree remove --force %s" % WT)
        sh("rm -rf %s" % WT)
        r = sh("git -C /repo worktree add -q --detach %s HEAD" % WT)
        if r.returncode != 0:
            print("worktree failed", r.stderr)
            return {"name": name, "property": prop, "applies": False}
        t0 = time.time()
        ap = sh("git -C %s apply %s" % (WT, patch))
        rec = {"name": name, "property": prop, "applies": ap.returncode == 0}
        if ap.returncode == 0:
            tb = sh("QENTEM_REPO=%s VERIF_BASELINE_DIR=%s VERIF_CTEST_TIMEOUT=120 %s/tools/baseline_off.sh" % (WT, BL, HERE))
            rec["repo_tests_pass"] = "100% tests passed" in tb.stdout
            env = dict(os.environ, QENTEM_REPO=WT, VERIF_SEED=os.environ.get("VERIF_SEED", "1"),
                       VERIF_EVIDENCE_DIR=os.path.join(HERE, "build", "evidence-selftest"))
            ck = subprocess.run([os.path.join(HERE, "check"), prop, "--tier", "quick"], capture_output=True, text=True, env=env, cwd=HERE)
            rec["check_exit"] = ck.returncode
            keys = re.findall(r"^\s+key=(\S+)", ck.stdout, re.M)
            rec["violation_keys"] = keys[:6]
            rec["detected"] = ck.returncode == 1 and "VIOLATION property=%s" % prop in ck.stdout
            sh("rm -rf %s" % BL)
        rec["seconds"] = round(time.time() - t0, 1)
        print("%-38s %-4s tests_pass=%-5s detected=%-5s exit=%s  %s" % (name, prop, rec.get("repo_tests_pass"), rec.get("detected"), rec.get("check_exit"), ",".join(rec.get("violation_keys", []))[:110]), flush=True)
        sh("git -C /repo worktree remove --force %s" % WT)
        sh("rm -rf %s" % WT)
        return rec


if __name__ == "__main__":
    sys.exit(main())
