#!/usr/bin/env python3
"""Prints selftest_results.json as the markdown table of DESIGN.md section 8.5."""
import json
import os

HERE = os.path.dirname(os.path.dirname(os.path.abspath(__file__)))
rows = json.load(open(os.path.join(HERE, "selftest_results.json")))
rows.sort(key=lambda r: (r["property"], r["name"].startswith("seeded/"), r["name"]))
print("| change | property | repo tests still pass | caught by quick check | first violation keys |")
print("|---|---|---|---|---|")
for r in rows:
    keys = ", ".join("`%s`" % k for k in r.get("violation_keys", [])[:3])
    print("| %s | %s | %s | %s | %s |" % (r["name"], r["property"], "yes" if r.get("repo_tests_pass") else "no",
                                        "yes" if r.get("detected") else "**no**", keys))
n = len(rows)
print()
print("%d changes, %d caught; %d of them pass the repository's 15 tests (of which %d caught)." % (
    n, sum(1 for r in rows if r.get("detected")), sum(1 for r in rows if r.get("repo_tests_pass")),
    sum(1 for r in rows if r.get("repo_tests_pass") and r.get("detected"))))
