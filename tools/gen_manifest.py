#!/usr/bin/env python3
"""Writes /verif/MANIFEST.json from the table below (single source of truth for the registered checks)."""
import json
import os

HERE = os.path.dirname(os.path.dirname(os.path.abspath(__file__)))
REPO_HOOK_COMMITS = ["dd1417b", "4e2c04a"]

# id -> (technique, level text, level note, design section)
CHECKS = {
    "C20": ("exhaustive runtime differential monitor (python codec tables) under ASan+UBSan",
            "Every one of the 1,112,064 scalar values is pushed through the real encoder and through JSON::Parse of "
            "\\u escapes (upper/lower hex, embedded, as key) in UTF-8/16/32/wchar_t builds and compared with python's "
            "codecs; the input space is finite and enumerated completely, so this is as strong as runtime monitoring gets.",
            "python3 codecs are the reference; ASan/UBSan only see the executed paths", "3/C20"),
    "C09": ("runtime differential monitor against glibc strtod + exact 128-bit integer classification, ASan/UBSan on exact-size buffers",
            "Generated numerals of the stated grammar (12 families incl. exact halfway points between adjacent doubles, "
            "2^63/2^64 boundaries, 400-digit mantissas, overflow and subnormal ranges, must-reject malformed forms) are "
            "converted by the real code and compared with a correctly rounded reference; sampling of an infinite domain.",
            "glibc strtod is correctly rounded; numerals below half the smallest subnormal are outside the quantifier as read", "3/C09"),
    "C10": ("runtime differential monitor against glibc snprintf with mismatch classification; exhaustive float sweep in the thorough tier",
            "Doubles/floats from 10 families x precision 0..40 x 3 formats, integers of all widths (8/16-bit exhaustively), "
            "non-empty destination streams, all compared byte for byte with printf; every mismatch is classified by an exact "
            "decimal-expansion predicate so that recorded defect classes cannot hide a different defect.",
            "glibc snprintf is exact; 2^64 doubles are sampled, floats are exhaustive only in the thorough tier", "3/C10"),
    "C11": ("runtime round-trip monitor (bit comparison), exhaustive over all 2^32 floats in the thorough tier",
            "format(17)->parse must be the identity on bit patterns: sampled doubles from every binade and the risky "
            "neighbourhoods, and every float; no reference needed, the oracle is bit equality.",
            "doubles are sampled (2^64 cannot be enumerated)", "3/C11"),
    "C05": ("sanitizer monitoring (ASan + UBSan subset, guard pages, CPU watchdog, ledger) of generated/mutated/truncated inputs",
            "Millions of hostile inputs (every prefix, byte/token mutations, NULs after keyword prefixes, unterminated "
            "keys/strings/escapes, soups, nesting to 1024) in exact-size heap blocks and against PROT_NONE pages, four unit "
            "widths, three SIMD builds, hooks on/off; deep nesting also on the default 8 MiB stack without instrumentation.",
            "red-zone tools miss far and intra-object overflows; only generated inputs <= 4 KiB are judged", "3/C05"),
    "C07": ("runtime oracle-by-construction over every cut point of generated documents",
            "Inputs are invalid by construction, so the oracle (result must be Undefined) is exact; every proper prefix of "
            "every generated document is tried with the rest of the document lying behind the cut, plus trailing-garbage and "
            "closer-swap/removal families.",
            "documents come from a generator of the RFC 8259 grammar; sampling of an infinite set", "3/C07"),
    "C06": ("runtime differential monitor against python3 json over generated RFC 8259 documents, three encodings, fresh and reused scratch stream",
            "Each generated document is parsed by the real parser (ASan builds, exact-size buffers) in UTF-8/16/32 and its "
            "canonical dump compared with the denotation computed by an independent conformant parser; the reused-stream "
            "history variant exposes state leaking between parses.",
            "python3 json is the reference; the grammar is sampled, not enumerated", "3/C06"),
    "C14": ("model-based runtime monitor (std::vector / std::basic_string lock-step models) under ASan+UBSan+ledger, exact-fit hook; exhaustive copy-length sweep",
            "Random histories over aliased variables with the whole state compared after every step; the exact-fit growth "
            "hook puts the logical end next to the red zone; Memory::Copy/SetToZero are enumerated for every length "
            "0..4096 at all 32x32 misalignments in scalar, SSE2 and AVX2 builds.",
            "histories are sampled; models are the C++ standard containers", "3/C14"),
    "C13": ("model-based runtime monitor (ordered-map model compared after every step) under ASan+UBSan+ledger with adversarial key pools",
            "Random histories over HArray (three value types) and HList with colliding / empty / NUL-containing keys; after "
            "every operation iteration order and all lookups of the whole key pool are compared with the model.",
            "histories are sampled; slot numbers are outside the contract and never compared", "3/C13"),
    "C15": ("exhaustive small-universe enumeration of comparison operators plus permutation/order monitors on every Sort entry point",
            "All pairs and triples of the 121-string universe for every operator overload and width, all pairs/triples of a "
            "50-value pool, all arrays over 4 strings up to length 6 through five sort entry points (incl. <loop sort=>), "
            "both directions.",
            "longer strings and larger arrays are sampled", "3/C15"),
    "C19": ("model-based runtime monitor (independent reference integer after every step + offline python-int replay of the operation log), UBSan bounds on the fixed storage, exhaustive 8-bit helper",
            "Histories over 14 instantiations with boundary-biased operands, compared word for word after every step; the "
            "operation log of the first histories is replayed with python's exact int (history checker); "
            "DoubleSize<u8> multiply/divide enumerated completely, wider helpers against native wide arithmetic.",
            "operands and histories are sampled except for the 8-bit helper", "3/C19"),
    "C12": ("model-based runtime monitor (abstract JSON document model compared after every step) under ASan+UBSan+ledger",
            "Random operation histories over four aliased Value roots with nested targets; after every operation all roots "
            "are walked through the public readers and compared with the model; three character widths, hooks on/off.",
            "histories are sampled; operations whose effect the statement does not fix are not generated (listed in the evidence assumptions)", "3/C12"),
    "C08": ("runtime round-trip monitor over history-generated trees + offline conformance check of the emitted text with python3's strict json",
            "Every container state reached by the C12 histories is stringified (17 digits), re-parsed from an exact-size "
            "buffer and compared with the model's defined content; the text must be a fixed point and, for UTF-8, must be "
            "accepted by an independent strict RFC 8259 parser with the same denotation.",
            "trees are those the histories reach; python3 json is the reference for validity", "3/C08"),
    "C16": ("allocation-ledger conservation monitor on the library's own Allocate/Deallocate seam + ASan/LSan over error-path workloads",
            "Per-case conservation (ledger empty when all owners are gone), exactly-once release and no foreign release are "
            "checked online over rejected/truncated JSON, Value/hash-array/container histories (and template cache lifetimes); "
            "ASan adds use-after-free/double-free, LSan the process-exit view.",
            "only executed paths; allocation failure is not injected", "3/C16"),
    "C18": ("model-based runtime monitor (reference partition on the document model) for GroupBy and <loop group=>",
            "Generated arrays of records with the key at varying member positions, all key kinds, removed members; the "
            "result tree is compared node by node with the reference partition, the source must be unchanged, and the loop "
            "attribute must print the same partition.",
            "arrays are sampled (<= 12 records, <= 6 groups)", "3/C18"),
    "C03": ("exhaustive small-alphabet enumeration + random strings through an injection-safety oracle, on the escaper and on every printing path of the renderer",
            "All strings over the 18 risky units up to length 5 (6 in thorough) in four widths, random strings with entity "
            "look-alikes near the end, and payloads pushed through each printing path isolated by sentinels; escape on/off builds.",
            "longer strings are sampled", "3/C03"),
    "C01": ("sanitizer monitoring (ASan + UBSan subset, SIGFPE, guard pages, exception catch-all, CPU watchdog, ledger, exact-fit hook) of generated, truncated, mutated and hostile templates against a pool of value trees",
            "Hundreds of thousands of renders per run: grammar-derived templates with every tag kind, all/40 prefixes, 40 "
            "mutations, token soups, hostile seeds and the narrow-field family, four character widths, three SIMD builds, "
            "escape on/off, hooks on/off, cached and uncached, in exact-size or guard-page-backed read-only buffers; deepest "
            "nesting also on the default stack without instrumentation.",
            "only executed paths; red-zone tools miss far and intra-object overflows; templates <= 4 KiB except the narrow family", "3/C01"),
    "C17": ("ThreadSanitizer race detection + output/state comparison monitors over shared-cache concurrent and repeated renders",
            "Generated templates parsed once and rendered concurrently from 2-16 threads sharing the tag array and value under "
            "TSan; outputs compared with fresh renders, value/template/cache checked unchanged (template in a read-only "
            "mapping); sequential cache reuse with different values and pre-filled streams.",
            "schedules are sampled; TSan is happens-before based and only sees executed code", "3/C17"),
    "C04": ("runtime differential monitor against an exact reference evaluator (python int / Fraction) over generated expression trees, observed through Evaluate and three rendered forms",
            "Random trees over all 16 operators with every operand kind; integers must be exact, reals within rounding noise, "
            "no-value cases must echo / not satisfy; mismatches are classified by re-evaluating the reference with a recorded "
            "engine quirk switched on, so a recorded finding cannot hide a different defect.",
            "the reference encodes the documented precedence; forms whose grouping the documentation leaves open are parenthesised or not generated", "3/C04"),
    "C02": ("runtime differential monitor against an independent reference interpreter written from Documentation/Template.md, over jointly generated values and template ASTs",
            "Templates with every tag kind, nesting, loop-variable use, grouping and sorting are rendered by the real engine "
            "in five build configurations (all character widths, SIMD variants, escape on/off, cached and uncached) and "
            "compared byte for byte with the reference expansion.",
            "the reference interpreter is a reading of the documentation; everything the documentation leaves open is not generated (evidence assumptions list it)", "3/C02"),
}

PENDING = {}


def main():
    props = [json.loads(l) for l in open(os.path.join(HERE, "properties.jsonl"))]
    checks = []
    na = []
    for p in props:
        pid = p["id"]
        if pid in CHECKS:
            tech, text, note, ref = CHECKS[pid]
            checks.append({
                "property_id": pid,
                "quick_cmd": "./check %s --tier quick" % pid,
                "thorough_cmd": "./check %s --tier thorough" % pid,
                "evidence_file": "/verif/evidence/%s.json" % pid,
                "replay_cmd_template": "./check %s --replay {path}" % pid,
                "engine": "qentem-runtime-monitors",
                "level_claimed": {"category": "exploration", "text": text, "design_ref": "DESIGN.md section " + ref},
                "level_note": note,
                "technique": tech,
            })
        else:
            na.append({"property_id": pid,
                       "reason": PENDING.get(pid, "check not built yet in this session (planned in DESIGN.md section 3); "
                                                  "not claimed until its monitor is silent on the unchanged tree")})
    m = {
        "version": 1,
        "setup_cmd": "python3 -c \"import sys; sys.exit(0)\"",
        "hooks": {
            "guard": "QENTEM_VERIF_HOOKS",
            "enable": "every harness is compiled from /repo/Include with -DQENTEM_VERIF_HOOKS=1 (exact-fit growth of "
                      "Array and StringStream) and, for the same workloads, once more without it",
            "baseline_off_cmd": "tools/baseline_off.sh",
            "source_commits": REPO_HOOK_COMMITS,
            "add_only": True,
        },
        "engines": [{
            "name": "qentem-runtime-monitors",
            "path": "/verif/check",
            "serves_properties": sorted(CHECKS),
            "kind_free_text": "python driver + C++ harnesses compiled against /repo/Include under ASan/UBSan/TSan; "
                              "allocation ledger, reference models, differential oracles, exhaustive sweeps",
        }],
        "checks": checks,
        "not_applicable": na,
        "notes": "Runtime monitoring only; see DESIGN.md. known_findings.json lists recorded and fixed defects.",
    }
    with open(os.path.join(HERE, "MANIFEST.json"), "w") as f:
        json.dump(m, f, indent=1)
    print("MANIFEST.json: %d checks, %d not claimed" % (len(checks), len(na)))


if __name__ == "__main__":
    main()
