#!/usr/bin/env python3
"""Which library lines do the quick workloads never execute?  (A monitor says nothing about code its workload does not
reach, so this is the map of where a change could hide.)  Rebuilds every harness with gcov instrumentation into
build/cov, runs the quick checks there (evidence redirected), merges the line counts of all binaries for Include/*.hpp
and writes build/cov/gaps.txt: per header, the instrumented lines with count 0 in every binary.
Usage: tools/coverage_gaps.py [Cxx ...]   (default: all 20)"""
import glob
import gzip
import json
import os
import subprocess
import sys

HERE = os.path.dirname(os.path.dirname(os.path.abspath(__file__)))
COV = os.path.join(HERE, "build", "cov")
REPO = os.environ.get("QENTEM_REPO", "/repo")


def main():
    ids = sys.argv[1:] or ["C%02d" % i for i in range(1, 21)]
    env = dict(os.environ, VERIF_COVERAGE="1", VERIF_BUILD=COV, VERIF_EVIDENCE_DIR=os.path.join(COV, "evidence"))
    for i in ids:
        r = subprocess.run([os.path.join(HERE, "check"), i, "--tier", "quick"], env=env, cwd=HERE, capture_output=True, text=True)
        print(i, "exit", r.returncode, flush=True)
    counts = {}   # (file, line) -> count
    funcs = {}    # (file, demangled name) -> count
    for gcda in glob.glob(os.path.join(COV, "bin", "*.gcda")):
        r = subprocess.run(["gcov", "--json-format", "--stdout", "-m", gcda], capture_output=True, cwd=os.path.join(COV, "bin"))
        if r.returncode != 0:
            print("gcov failed on", gcda)
            continue
        for doc in r.stdout.decode("utf-8", "replace").splitlines():
            if not doc.startswith("{"):
                continue
            j = json.loads(doc)
            for f in j.get("files", []):
                fn = os.path.realpath(os.path.join(COV, "bin", f["file"]))
                if not fn.startswith(os.path.realpath(os.path.join(REPO, "Include"))):
                    continue
                for ln in f["lines"]:
                    k = (fn, ln["line_number"])
                    counts[k] = counts.get(k, 0) + ln["count"]
                for fu in f.get("functions", []):
                    # one source function = (file, first line), whatever the template arguments
                    k = (fn, fu["start_line"])
                    c, nm = funcs.get(k, (0, ""))
                    funcs[k] = (c + fu["execution_count"], nm or fu.get("demangled_name", fu["name"]).split("(")[0][:120])
    per = {}
    for (fn, ln), c in counts.items():
        per.setdefault(fn, []).append((ln, c))
    out = []
    tot = zero = 0
    for fn in sorted(per):
        lines = sorted(per[fn])
        z = [ln for ln, c in lines if c == 0]
        tot += len(lines)
        zero += len(z)
        out.append("%s: %d instrumented lines, %d never executed" % (os.path.relpath(fn, REPO), len(lines), len(z)))
        src = open(fn, errors="replace").read().split("\n")
        # group consecutive lines
        grp = []
        for ln in z:
            if grp and ln - grp[-1][-1] <= 2:
                grp[-1].append(ln)
            else:
                grp.append([ln])
        for g in grp:
            out.append("   %d-%d: %s" % (g[0], g[-1], src[g[0] - 1].strip()[:110]))
    out.append("TOTAL %d instrumented lines, %d never executed (%.1f%%)" % (tot, zero, 100.0 * zero / max(1, tot)))
    # functions instantiated but never called
    never = sorted({(os.path.relpath(k[0], REPO), k[1], nm) for k, (c, nm) in funcs.items() if c == 0})
    out.append("source functions instantiated by some harness but called in no instantiation: %d" % len(never))
    for f, ln, name in never:
        out.append("   %s:%d %s" % (f, ln, name))
    with open(os.path.join(COV, "gaps.txt"), "w") as f:
        f.write("\n".join(out) + "\n")
    print(out[-2 - len(never)] if never else out[-2])
    print("written", os.path.join(COV, "gaps.txt"))


if __name__ == "__main__":
    sys.exit(main())
