// Debug helper (not a check): renders the template text given in a file against pool value N under the sanitizers.
#include "tmplgen.hpp"
using namespace Qentem;
int main(int argc, char **argv) {
    vf::ledger().enabled = false;
    tg::Pool<char> pool;
    std::vector<unsigned char> t = vf::slurp(argv[1]);
    unsigned idx = argc > 2 ? unsigned(atoi(argv[2])) : 0;
    vf::ExactBuf<char> b((const char *)t.data(), t.size());
    StringStream<char> out;
    Template::Render((const char *)b.p, SizeT(b.n), pool.v[idx % pool.v.size()], out);
    fwrite(out.First(), 1, out.Length() > 2000 ? 2000 : out.Length(), stdout);
    return 0;
}
