// Shared harness support for all /verif checks.
//
//  * allocation ledger through the library's own accounting seam (QENTEM_Q_TEST_H + MemoryRecord)
//  * per-case protocol: current case index, CPU-time watchdog, death handlers that name the case
//  * non-fatal failure reporting (FAIL lines) with a class key used for known-finding matching
//  * exact-size and guard-page input placement
//  * deterministic PRNG keyed by (seed, case)
//  * distinct-case hashing and sample emission for the evidence files
//
// Include this header BEFORE any Qentem header.
#ifndef VERIF_COMMON_HPP
#define VERIF_COMMON_HPP

#include <new>

#include <atomic>
#include <cerrno>
#include <cinttypes>
#include <csignal>
#include <cstdarg>
#include <cstdint>
#include <cstdio>
#include <cstdlib>
#include <cstring>
#include <map>
#include <mutex>
#include <string>
#include <unordered_set>
#include <vector>

#include <sys/mman.h>
#include <sys/resource.h>
#include <sys/time.h>
#include <unistd.h>

// ---------------------------------------------------------------------------------------------------
// Ledger: the library calls these from Memory::Allocate / Memory::Deallocate when QENTEM_Q_TEST_H is set.
// ---------------------------------------------------------------------------------------------------
#ifndef VF_NO_LEDGER
#define QENTEM_Q_TEST_H
#endif

namespace vf {
void ledger_add(void *p) noexcept;
void ledger_remove(void *p) noexcept;
} // namespace vf

namespace Qentem {
struct MemoryRecord {
    static void AddAllocation(void *pointer) noexcept {
        vf::ledger_add(pointer);
    }
    static void RemoveAllocation(void *pointer) noexcept {
        vf::ledger_remove(pointer);
    }
};
} // namespace Qentem

namespace vf {

// ------------------------------------------------------------------ globals
static volatile uint64_t g_case      = ~uint64_t{0};
static uint64_t          g_seed      = 1;
static uint64_t          g_fail_cnt  = 0;
static uint64_t          g_fail_cap  = 3000; // printed FAIL lines per process (5 per key; the rest only counted)
static int               g_cpu_limit = 20;  // seconds of process CPU per case
static bool              g_only      = false;
static bool              g_verbose   = false;
static std::map<std::string, uint64_t> g_counters;
static std::map<std::string, uint64_t> g_fail_keys;
static std::unordered_set<uint64_t>    g_distinct;
static uint64_t                        g_samples_left = 4;
static FILE                           *g_hash_file    = nullptr;

// ------------------------------------------------------------------ async-signal-safe printing
static void sig_write(const char *tag, uint64_t c, int extra) noexcept {
    char buf[128];
    int  n = 0;
    for (const char *t = tag; *t; ++t) buf[n++] = *t;
    const char *m = " case=";
    for (const char *t = m; *t; ++t) buf[n++] = *t;
    char tmp[24];
    int  k = 0;
    if (c == ~uint64_t{0}) {
        buf[n++] = '-';
        buf[n++] = '1';
    } else {
        do {
            tmp[k++] = char('0' + (c % 10));
            c /= 10;
        } while (c != 0);
        while (k > 0) buf[n++] = tmp[--k];
    }
    const char *m2 = " sig=";
    for (const char *t = m2; *t; ++t) buf[n++] = *t;
    if (extra < 0) {
        buf[n++] = '-';
        extra    = -extra;
    }
    k = 0;
    do {
        tmp[k++] = char('0' + (extra % 10));
        extra /= 10;
    } while (extra != 0);
    while (k > 0) buf[n++] = tmp[--k];
    buf[n++] = '\n';
    ssize_t r = write(2, buf, size_t(n));
    (void)r;
}

static void on_fatal_signal(int sig) noexcept {
    sig_write("\nDIED", g_case, sig);
    signal(sig, SIG_DFL);
    raise(sig);
}

static void on_watchdog(int) noexcept {
    sig_write("\nTIMEOUT", g_case, 0);
    _exit(78);
}

// ------------------------------------------------------------------ counters / fails / samples
inline void count(const char *key, uint64_t n = 1) {
    g_counters[key] += n;
}
inline void count(const std::string &key, uint64_t n = 1) {
    g_counters[key] += n;
}
inline void count_max(const char *key, uint64_t v) {
    uint64_t &r = g_counters[key];
    if (v > r) r = v;
}

// Non-fatal failure. key = class of the failure (stable, no case-specific data); detail = free text.
__attribute__((format(printf, 2, 3))) inline void fail(const char *key, const char *fmt, ...) {
    ++g_fail_cnt;
    uint64_t &k = g_fail_keys[key];
    ++k;
    if (k <= 5 || g_only) {
        if (g_fail_cnt <= g_fail_cap || g_only) {
            char    buf[4096];
            va_list ap;
            va_start(ap, fmt);
            vsnprintf(buf, sizeof(buf), fmt, ap);
            va_end(ap);
            for (char *p = buf; *p; ++p) {
                if (*p == '\n' || *p == '\r') *p = ' ';
            }
            printf("FAIL case=%" PRIu64 " key=%s detail=%s\n", uint64_t(g_case), key, buf);
            fflush(stdout);
        }
    }
}

// Fatal failure detected by a monitor (continuing would corrupt the process).
__attribute__((format(printf, 2, 3))) inline void fatal(const char *key, const char *fmt, ...) {
    char    buf[2048];
    va_list ap;
    va_start(ap, fmt);
    vsnprintf(buf, sizeof(buf), fmt, ap);
    va_end(ap);
    printf("FAIL case=%" PRIu64 " key=%s detail=%s\n", uint64_t(g_case), key, buf);
    fflush(stdout);
    fprintf(stderr, "\nMONITOR-FATAL case=%" PRIu64 " key=%s\n", uint64_t(g_case), key);
    _exit(79);
}

inline bool want_sample() {
    return g_samples_left > 0 || g_only;
}
__attribute__((format(printf, 1, 2))) inline void sample(const char *fmt, ...) {
    if (!want_sample()) return;
    if (g_samples_left > 0) --g_samples_left;
    char    buf[1500];
    va_list ap;
    va_start(ap, fmt);
    vsnprintf(buf, sizeof(buf), fmt, ap);
    va_end(ap);
    for (char *p = buf; *p; ++p) {
        if (*p == '\n' || *p == '\r') *p = ' ';
    }
    printf("SAMPLE case=%" PRIu64 " %s\n", uint64_t(g_case), buf);
}

// Mark the current case as non-trivial with content hash h (distinct counting is exact per process;
// the driver unions the per-process sets).
inline void distinct(uint64_t h) {
    g_distinct.insert(h);
}

inline uint64_t fnv(const void *data, size_t n, uint64_t h = 1469598103934665603ULL) {
    const unsigned char *p = static_cast<const unsigned char *>(data);
    for (size_t i = 0; i < n; ++i) {
        h ^= p[i];
        h *= 1099511628211ULL;
    }
    return h;
}
inline uint64_t mix(uint64_t x) {
    x ^= x >> 30;
    x *= 0xbf58476d1ce4e5b9ULL;
    x ^= x >> 27;
    x *= 0x94d049bb133111ebULL;
    x ^= x >> 31;
    return x;
}

inline std::string hex(const void *data, size_t n, size_t cap = 400) {
    static const char   *d = "0123456789abcdef";
    const unsigned char *p = static_cast<const unsigned char *>(data);
    std::string          s;
    for (size_t i = 0; i < n && i < cap; ++i) {
        s += d[p[i] >> 4];
        s += d[p[i] & 15];
    }
    if (n > cap) s += "...";
    return s;
}
// printable rendering of code units (any width), non-ASCII as \x{..}
template <typename C>
inline std::string show(const C *s, size_t n, size_t cap = 300) {
    std::string o;
    for (size_t i = 0; i < n && i < cap; ++i) {
        uint32_t c = uint32_t(s[i]) & (sizeof(C) == 1 ? 0xFFu : (sizeof(C) == 2 ? 0xFFFFu : 0xFFFFFFFFu));
        if (c >= 0x20 && c < 0x7f && c != '\\') {
            o += char(c);
        } else {
            char b[16];
            snprintf(b, sizeof(b), "\\x{%x}", c);
            o += b;
        }
    }
    if (n > cap) o += "...";
    return o;
}

// ------------------------------------------------------------------ PRNG (splitmix / xoshiro-like)
struct Rng {
    uint64_t s;
    explicit Rng(uint64_t seed) : s(seed) {
    }
    Rng(uint64_t seed, uint64_t c) : s(mix(seed * 0x9E3779B97F4A7C15ULL + 0x1234567) ^ mix(c + 0x632BE59BD9B4E019ULL)) {
    }
    uint64_t next() {
        s += 0x9E3779B97F4A7C15ULL;
        return mix(s);
    }
    uint32_t below(uint32_t n) { // n >= 1
        return uint32_t((next() >> 11) % n);
    }
    uint64_t below64(uint64_t n) {
        return next() % n;
    }
    bool chance(uint32_t num, uint32_t den) {
        return below(den) < num;
    }
    uint32_t range(uint32_t lo, uint32_t hi) { // inclusive
        return lo + below(hi - lo + 1);
    }
    template <typename T>
    const T &pick(const std::vector<T> &v) {
        return v[below(uint32_t(v.size()))];
    }
};

// ------------------------------------------------------------------ ledger
struct Ledger {
    // open addressing, pointer keys; tombstone = 1
    std::vector<uintptr_t> tab;
    size_t                 used = 0, live = 0, peak = 0;
    uint64_t               allocs = 0, frees = 0;
    bool                   enabled = true;
#ifdef VF_THREADS
    std::mutex mu;
#endif
    Ledger() : tab(1 << 16, 0) {
    }
    static size_t h(uintptr_t p, size_t m) {
        return size_t(mix(uint64_t(p)) & (m - 1));
    }
    void grow() {
        std::vector<uintptr_t> old;
        old.swap(tab);
        tab.assign(old.size() * 2, 0);
        used = 0;
        for (uintptr_t p : old) {
            if (p > 1) raw_insert(p);
        }
    }
    void raw_insert(uintptr_t p) {
        size_t m = tab.size(), i = h(p, m);
        while (tab[i] > 1) i = (i + 1) & (m - 1);
        if (tab[i] == 0) ++used;
        tab[i] = p;
    }
    bool find(uintptr_t p, size_t &at) const {
        size_t m = tab.size(), i = h(p, m);
        while (tab[i] != 0) {
            if (tab[i] == p) {
                at = i;
                return true;
            }
            i = (i + 1) & (m - 1);
        }
        return false;
    }
};
inline Ledger &ledger() {
    static Ledger *l = new Ledger(); // intentionally never destroyed (used from atexit paths)
    return *l;
}

inline void ledger_add(void *ptr) noexcept {
    Ledger &l = ledger();
#ifdef VF_THREADS
    std::lock_guard<std::mutex> g(l.mu);
#endif
    if (!l.enabled) return;
    uintptr_t p = uintptr_t(ptr);
    size_t    at;
    ++l.allocs;
    if (ptr == nullptr) return;
    if (l.find(p, at)) {
        fatal("ledger:allocate-live-address", "allocator returned %p which the ledger still holds as live", ptr);
    }
    if ((l.used + 1) * 2 > l.tab.size()) l.grow();
    l.raw_insert(p);
    ++l.live;
    if (l.live > l.peak) l.peak = l.live;
}

inline void ledger_remove(void *ptr) noexcept {
    Ledger &l = ledger();
#ifdef VF_THREADS
    std::lock_guard<std::mutex> g(l.mu);
#endif
    if (!l.enabled) return;
    uintptr_t p = uintptr_t(ptr);
    size_t    at;
    ++l.frees;
    if (!l.find(p, at)) {
        fatal("ledger:release-of-non-live-block", "Deallocate(%p): block is not live (double or foreign release)", ptr);
    }
    l.tab[at] = 1;
    --l.live;
}

// Call at a quiescent point (all library objects of the case destroyed).
inline void ledger_expect_empty(const char *where) {
    Ledger &l = ledger();
    if (l.live != 0) {
        fail("ledger:leak", "%zu block(s) still live at %s", l.live, where);
        // forget them so that later cases are judged on their own
        for (auto &e : l.tab) {
            if (e > 1) e = 1;
        }
        l.live = 0;
    }
}

// ------------------------------------------------------------------ input placement
// exact-size heap copy (ASan red zone begins at data+n)
template <typename C>
struct ExactBuf {
    C     *p = nullptr;
    size_t n = 0;
    ExactBuf(const C *src, size_t len) : n(len) {
        p = static_cast<C *>(malloc(len * sizeof(C) + (len == 0 ? 1 : 0)));
        if (len) memcpy(p, src, len * sizeof(C));
    }
    ~ExactBuf() {
        free(p);
    }
    ExactBuf(const ExactBuf &)            = delete;
    ExactBuf &operator=(const ExactBuf &) = delete;
};

// buffer flush against a PROT_NONE page (after = guard follows the data, else guard precedes it)
template <typename C>
struct GuardBuf {
    char  *base  = nullptr;
    size_t total = 0;
    C     *p     = nullptr;
    size_t n     = 0;
    GuardBuf(const C *src, size_t len, bool after = true) : n(len) {
        const size_t pg    = 4096;
        size_t       bytes = len * sizeof(C);
        size_t       data  = ((bytes + pg - 1) / pg) * pg;
        if (data == 0) data = pg;
        total = data + 2 * pg;
        base  = static_cast<char *>(mmap(nullptr, total, PROT_READ | PROT_WRITE, MAP_PRIVATE | MAP_ANONYMOUS, -1, 0));
        if (base == MAP_FAILED) {
            perror("mmap");
            _exit(2);
        }
        mprotect(base, pg, PROT_NONE);
        mprotect(base + pg + data, pg, PROT_NONE);
        if (after) {
            p = reinterpret_cast<C *>(base + pg + data - bytes);
        } else {
            p = reinterpret_cast<C *>(base + pg);
        }
        if (len) memcpy(p, src, bytes);
        memset(base + pg, 0x5A, size_t(reinterpret_cast<char *>(p) - (base + pg)));
    }
    void make_readonly() {
        mprotect(base + 4096, total - 8192, PROT_READ);
    }
    ~GuardBuf() {
        munmap(base, total);
    }
    GuardBuf(const GuardBuf &)            = delete;
    GuardBuf &operator=(const GuardBuf &) = delete;
};

// ------------------------------------------------------------------ case protocol
inline void arm_watchdog() {
    struct itimerval it;
    memset(&it, 0, sizeof(it));
    it.it_value.tv_sec = g_cpu_limit;
    setitimer(ITIMER_VIRTUAL, &it, nullptr);
}
inline void disarm_watchdog() {
    struct itimerval it;
    memset(&it, 0, sizeof(it));
    setitimer(ITIMER_VIRTUAL, &it, nullptr);
}

static bool g_announce_request = false;
static bool g_announce = false; // print the case index before running it (for tools without an on-report hook, e.g. TSan)
inline void begin_case(uint64_t c) {
    g_case = c;
    if (g_announce) sig_write("\nBEGIN", c, 0);
    arm_watchdog();
}
inline void end_case(bool check_ledger = true) {
    disarm_watchdog();
    if (check_ledger) ledger_expect_empty("end of case");
    count("cases");
}

struct Args {
    uint64_t    seed = 1, from = 0, to = 0, only = ~uint64_t{0};
    std::string casefile, outfile, hashfile;
    std::map<std::string, std::string> opt;
    long        optl(const char *k, long d) const {
        auto it = opt.find(k);
        return it == opt.end() ? d : atol(it->second.c_str());
    }
    std::string opts(const char *k, const char *d) const {
        auto it = opt.find(k);
        return it == opt.end() ? std::string(d) : it->second;
    }
};

inline void install_handlers() {
    signal(SIGVTALRM, on_watchdog);
    signal(SIGABRT, on_fatal_signal);
#if !defined(__SANITIZE_ADDRESS__) && !defined(__SANITIZE_THREAD__)
    // alternate stack so that stack exhaustion is still attributed to a case
    static char  altstack[1 << 16];
    stack_t      ss;
    ss.ss_sp    = altstack;
    ss.ss_size  = sizeof(altstack);
    ss.ss_flags = 0;
    sigaltstack(&ss, nullptr);
    struct sigaction sa;
    memset(&sa, 0, sizeof(sa));
    sa.sa_handler = on_fatal_signal;
    sa.sa_flags   = SA_ONSTACK | SA_RESETHAND;
    sigaction(SIGSEGV, &sa, nullptr);
    sigaction(SIGBUS, &sa, nullptr);
    sigaction(SIGFPE, &sa, nullptr);
    sigaction(SIGILL, &sa, nullptr);
#endif
}

inline Args parse_args(int argc, char **argv) {
    Args a;
    for (int i = 1; i < argc; ++i) {
        std::string s = argv[i];
        auto        nxt = [&]() -> const char * {
            if (i + 1 >= argc) {
                fprintf(stderr, "missing value for %s\n", s.c_str());
                _exit(2);
            }
            return argv[++i];
        };
        if (s == "--seed") a.seed = strtoull(nxt(), nullptr, 10);
        else if (s == "--from") a.from = strtoull(nxt(), nullptr, 10);
        else if (s == "--to") a.to = strtoull(nxt(), nullptr, 10);
        else if (s == "--only") a.only = strtoull(nxt(), nullptr, 10);
        else if (s == "--cases") a.casefile = nxt();
        else if (s == "--out") a.outfile = nxt();
        else if (s == "--hashes") a.hashfile = nxt();
        else if (s == "--cpu") g_cpu_limit = atoi(nxt());
        else if (s == "--verbose") g_verbose = true;
        else if (s == "--announce") g_announce_request = true;
        else if (s == "--opt") {
            std::string kv = nxt();
            size_t      eq = kv.find('=');
            if (eq == std::string::npos) a.opt[kv] = "1";
            else a.opt[kv.substr(0, eq)] = kv.substr(eq + 1);
        } else {
            fprintf(stderr, "unknown argument %s\n", s.c_str());
            _exit(2);
        }
    }
    if (a.only != ~uint64_t{0}) {
        a.from = a.only;
        a.to   = a.only + 1;
        g_only = true;
        g_verbose = true;
    }
    g_seed = a.seed;
    if (g_announce_request) g_announce = true;
    install_handlers();
    return a;
}

inline void json_escape(FILE *f, const std::string &s) {
    for (char ch : s) {
        unsigned char c = static_cast<unsigned char>(ch);
        if (c == '"' || c == '\\') {
            fputc('\\', f);
            fputc(c, f);
        } else if (c < 0x20 || c >= 0x7f) {
            fprintf(f, "\\u%04x", c);
        } else {
            fputc(c, f);
        }
    }
}

// Prints the DONE line (counters) and writes the distinct hashes; returns the process exit code.
inline int finish(const Args &a) {
    disarm_watchdog();
    g_case = ~uint64_t{0};
    Ledger &l = ledger();
    g_counters["ledger_allocs"] += l.allocs;
    g_counters["ledger_frees"] += l.frees;
    count_max("ledger_peak_live", l.peak);
    g_counters["distinct_local"] = g_distinct.size();
    if (!a.hashfile.empty()) {
        FILE *f = fopen(a.hashfile.c_str(), "wb");
        if (f) {
            std::vector<uint64_t> v(g_distinct.begin(), g_distinct.end());
            if (!v.empty()) fwrite(v.data(), 8, v.size(), f);
            fclose(f);
        }
    }
    printf("DONE {\"fails\": %" PRIu64 ", \"counters\": {", g_fail_cnt);
    bool first = true;
    for (auto &kv : g_counters) {
        if (!first) printf(", ");
        first = false;
        printf("\"");
        json_escape(stdout, kv.first);
        printf("\": %" PRIu64, kv.second);
    }
    printf("}, \"fail_keys\": {");
    first = true;
    for (auto &kv : g_fail_keys) {
        if (!first) printf(", ");
        first = false;
        printf("\"");
        json_escape(stdout, kv.first);
        printf("\": %" PRIu64, kv.second);
    }
    printf("}}\n");
    fflush(stdout);
    l.enabled = false;
    return 0;
}

// read whole file
inline std::vector<unsigned char> slurp(const std::string &path) {
    std::vector<unsigned char> v;
    FILE                      *f = fopen(path.c_str(), "rb");
    if (!f) {
        fprintf(stderr, "cannot open %s\n", path.c_str());
        _exit(2);
    }
    unsigned char buf[1 << 16];
    size_t        n;
    while ((n = fread(buf, 1, sizeof(buf), f)) > 0) v.insert(v.end(), buf, buf + n);
    fclose(f);
    return v;
}

// Case files written by the python generators: sequence of records, each
//   u32 n_fields, then n_fields x (u32 length, bytes)
struct CaseFile {
    std::vector<unsigned char>                    raw;
    std::vector<std::vector<std::pair<size_t, size_t>>> recs; // (offset,len) per field
    explicit CaseFile(const std::string &path) : raw(slurp(path)) {
        size_t off = 0;
        while (off + 4 <= raw.size()) {
            uint32_t nf;
            memcpy(&nf, &raw[off], 4);
            off += 4;
            std::vector<std::pair<size_t, size_t>> r;
            for (uint32_t i = 0; i < nf; ++i) {
                uint32_t len;
                memcpy(&len, &raw[off], 4);
                off += 4;
                r.emplace_back(off, size_t(len));
                off += len;
            }
            recs.push_back(std::move(r));
        }
    }
    size_t size() const {
        return recs.size();
    }
    const unsigned char *field(size_t c, size_t f, size_t &len) const {
        len = recs[c][f].second;
        return &raw[recs[c][f].first];
    }
    std::string str(size_t c, size_t f) const {
        size_t               len;
        const unsigned char *p = field(c, f, len);
        return std::string(reinterpret_cast<const char *>(p), len);
    }
};

} // namespace vf

// UBSan calls this before printing a report (with -fno-sanitize-recover the process then exits with 1).
extern "C" void __ubsan_on_report(void) {
    vf::sig_write("\nDIED", vf::g_case, 0);
}

// ASan calls this before printing its report: name the case.
extern "C" void __asan_on_error() {
    vf::sig_write("\nDIED", vf::g_case, 0);
}

#endif
