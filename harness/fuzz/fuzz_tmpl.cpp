// libFuzzer target for C01 (thorough tier): first byte selects unit width / value, the rest is the template text.
#include <new>
#include <cstdint>
#include <cstdlib>
#include <cstring>
#include <string>

#include "JSON.hpp"
#include "Template.hpp"

using namespace Qentem;

static const char *kValue =
    "{\"a\":5,\"b\":-3,\"c\":2.5,\"s\":\"str<&>\",\"t\":true,\"f\":false,\"z\":null,\"e\":\"\",\"list\":[1,2,\"x\",[3,4],{\"a\":1}],"
    "\"obj\":{\"a\":1,\"b\":\"two\",\"c\":[1,2]},\"n1\":\"12\",\"zero\":0,\"neg\":-1,\"recs\":[{\"y\":1,\"m\":2},{\"m\":5,\"y\":1}],"
    "\"ph\":\"P {0} and {1}; {2}{9}{x}{\",\"one\":[1],\"0\":\"zero-key\"}";

template <typename C>
static const Value<C> &value(unsigned which) {
    static Value<C> v[2];
    static bool     init = false;
    if (!init) {
        init = true;
        std::basic_string<C> w;
        for (const char *p = kValue; *p; ++p) w += C(*p);
        v[0] = JSON::Parse(w.data(), SizeT(w.size()));
        std::basic_string<C> a;
        for (const char *p = "[0,1,\"x\",[2,3],{\"y\":1}]"; *p; ++p) a += C(*p);
        v[1] = JSON::Parse(a.data(), SizeT(a.size()));
    }
    return v[which & 1];
}

template <typename C>
static void one(const uint8_t *data, size_t size, unsigned which) {
    size_t n = size; // one input byte per unit: keeps ASCII tag words reachable in every width
    C     *p = static_cast<C *>(malloc(n * sizeof(C) + (n == 0)));
    for (size_t i = 0; i < n; ++i) p[i] = C(data[i]);
    {
        StringStream<C> out;
        Template::Render((const C *)p, SizeT(n), value<C>(which), out);
    }
    free(p);
}

extern "C" int LLVMFuzzerTestOneInput(const uint8_t *data, size_t size) {
    if (size < 1 || size > 2049) return 0;
    unsigned sel = data[0];
    switch (sel & 3) {
        case 0: one<char>(data + 1, size - 1, sel >> 2); break;
        case 1: one<char16_t>(data + 1, size - 1, sel >> 2); break;
        case 2: one<char32_t>(data + 1, size - 1, sel >> 2); break;
        default: one<wchar_t>(data + 1, size - 1, sel >> 2);
    }
    return 0;
}
