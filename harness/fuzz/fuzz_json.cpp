// libFuzzer target for C05 (thorough tier): first byte selects the unit width and placement, the rest is the input.
#include <new>
#include <cstdint>
#include <cstdlib>
#include <cstring>
#include <vector>

#include "JSON.hpp"

using namespace Qentem;

template <typename C>
static void walk(const Value<C> &v) {
    if (v.IsObject() || v.IsArray()) {
        const SizeT n = v.Size();
        for (SizeT i = 0; i < n; ++i) {
            const Value<C> *c = v.GetValue(i);
            if (c != nullptr) walk(*c);
        }
    }
}

template <typename C>
static void one(const uint8_t *data, size_t size) {
    size_t n = size / sizeof(C);
    C     *p = static_cast<C *>(malloc(n * sizeof(C) + (n == 0)));
    if (n) memcpy(p, data, n * sizeof(C));
    {
        Value<C> v = JSON::Parse((const C *)p, SizeT(n));
        if (!v.IsUndefined()) {
            walk(v);
            StringStream<C> s;
            v.Stringify(s);
        }
    }
    free(p);
}

extern "C" int LLVMFuzzerTestOneInput(const uint8_t *data, size_t size) {
    if (size < 1 || size > 4097) return 0;
    switch (data[0] & 3) {
        case 0: one<char>(data + 1, size - 1); break;
        case 1: one<char16_t>(data + 1, size - 1); break;
        case 2: one<char32_t>(data + 1, size - 1); break;
        default: one<wchar_t>(data + 1, size - 1);
    }
    return 0;
}
