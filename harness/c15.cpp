// C15: comparison operators form a consistent order; every Sort returns an ordered permutation.
//   --opt mode=strings  case c = left string index (0..120): all pairs, all triples with that left operand
//   --opt mode=values   case c = left value index: all pairs/triples of a pool of Values
//   --opt mode=sorts    case c = one enumerated/random array: Array::Sort, HArray::Sort, Value::Sort, asc/desc
#include "common.hpp"

#include <algorithm>

#include "JSON.hpp"
#include "Template.hpp"

using namespace Qentem;

template <typename C>
static std::vector<std::basic_string<C>> universe() {
    std::vector<std::basic_string<C>> u;
    // the third unit is not ASCII: for 8-bit char it is negative as a signed char, and every operator must agree on which
    // side of 'a' it sorts (the expected order is the order of the character type's values)
    const C                           al[3] = {C('a'), C('b'), C(sizeof(C) == 1 ? 0xE9 : 0x20AC)};
    u.push_back({});
    for (int len = 1; len <= 4; ++len) {
        int total = 1;
        for (int i = 0; i < len; ++i) total *= 3;
        for (int v = 0; v < total; ++v) {
            std::basic_string<C> s;
            int                  x = v;
            for (int i = 0; i < len; ++i) {
                s += al[x % 3];
                x /= 3;
            }
            u.push_back(s);
        }
    }
    return u;
}

template <typename C>
static int cmp3(const std::basic_string<C> &a, const std::basic_string<C> &b) {
    size_t n = std::min(a.size(), b.size());
    for (size_t i = 0; i < n; ++i) {
        if (a[i] < b[i]) return -1;
        if (a[i] > b[i]) return 1;
    }
    return a.size() < b.size() ? -1 : (a.size() > b.size() ? 1 : 0);
}

template <typename C, typename L, typename R>
static void check_ops(const L &l, const R &r, int expect, const char *kind, const std::basic_string<C> &a, const std::basic_string<C> &b) {
    bool lt = (l < r), le = (l <= r), gt = (l > r), ge = (l >= r), eq = (l == r), ne = (l != r);
    bool ok = (lt == (expect < 0)) && (gt == (expect > 0)) && (eq == (expect == 0)) && (le == (expect <= 0)) && (ge == (expect >= 0)) && (ne == (expect != 0));
    vf::count("string_pair_operator_sets");
    if (!ok) {
        vf::fail((std::string("c15:string:") + kind + (expect == 0 ? ":equal" : ((a.size() < b.size() ? b.compare(0, a.size(), a) == 0 : a.compare(0, b.size(), b) == 0) ? ":proper-prefix" : ":differing"))).c_str(),
                 "unit=%zu a=%s b=%s expected=%d got < %d <= %d > %d >= %d == %d != %d", sizeof(C), vf::show(a.data(), a.size()).c_str(),
                 vf::show(b.data(), b.size()).c_str(), expect, lt, le, gt, ge, eq, ne);
    }
}

template <typename C>
static void strings_case(uint64_t c) {
    static const std::vector<std::basic_string<C>> U = universe<C>();
    if (c >= U.size()) return;
    const std::basic_string<C> &a = U[c];
    String<C>                   sa((const C *)a.data(), SizeT(a.size()));
    StringView<C>               va(a.data(), SizeT(a.size()));
    for (size_t j = 0; j < U.size(); ++j) {
        const std::basic_string<C> &b = U[j];
        String<C>                   sb((const C *)b.data(), SizeT(b.size()));
        StringView<C>               vb(b.data(), SizeT(b.size()));
        int                         e = cmp3(a, b);
        check_ops<C>(sa, sb, e, "String-String", a, b);
        check_ops<C>(va, vb, e, "View-View", a, b);
        check_ops<C>(sa, b.c_str(), e, "String-literal", a, b);
        check_ops<C>(va, b.c_str(), e, "View-literal", a, b);
        // transitivity over all triples with this (a,b)
        bool ab = sa < sb;
        for (size_t k = 0; k < U.size(); ++k) {
            const std::basic_string<C> &cc = U[k];
            StringView<C>               vc(cc.data(), SizeT(cc.size()));
            bool                        bc = vb < vc, ac = va < vc;
            vf::count("string_triples");
            if (ab && bc && !ac) {
                vf::fail("c15:string:transitivity", "a=%s b=%s c=%s", vf::show(a.data(), a.size()).c_str(), vf::show(b.data(), b.size()).c_str(),
                         vf::show(cc.data(), cc.size()).c_str());
            }
        }
    }
    vf::distinct(c * 4 + sizeof(C));
}

// random longer strings
template <typename C>
static void strings_random(uint64_t c) {
    vf::Rng r(vf::g_seed, c);
    for (int i = 0; i < 400; ++i) {
        std::basic_string<C> a, b;
        unsigned             n = r.below(40);
        for (unsigned k = 0; k < n; ++k) a += r.chance(1, 8) ? C(sizeof(C) == 1 ? 0x80 + r.below(0x80) : 0x80 + r.below(0x3000)) : C('a' + r.below(3));
        b = a;
        switch (r.below(4)) {
            case 0: b.resize(r.below(unsigned(b.size()) + 1)); break;
            case 1: b += C('a' + r.below(3)); break;
            case 2:
                if (!b.empty()) b[r.below(unsigned(b.size()))] = C('a' + r.below(3));
                break;
            default: break;
        }
        String<C> sa((const C *)a.data(), SizeT(a.size())), sb((const C *)b.data(), SizeT(b.size()));
        check_ops<C>(sa, sb, cmp3(a, b), "String-String", a, b);
        StringView<C> va(a.data(), SizeT(a.size())), vb(b.data(), SizeT(b.size()));
        check_ops<C>(va, vb, cmp3(a, b), "View-View", a, b);
        // views into one buffer: the same start with different lengths, and overlapping tails
        if (!b.empty()) {
            size_t               k = r.below(unsigned(b.size()) + 1), k2 = r.below(unsigned(b.size()) + 1);
            std::basic_string<C> pa = b.substr(0, k), pb = b.substr(0, k2), tb = b.substr(k2);
            StringView<C>        v1(b.data(), SizeT(k)), v2(b.data(), SizeT(k2)), v3(b.data() + k2, SizeT(b.size() - k2));
            check_ops<C>(v1, v2, cmp3(pa, pb), "View-View:same-start", pa, pb);
            check_ops<C>(v1, v3, cmp3(pa, tb), "View-View:overlap", pa, tb);
        }
    }
}

// ------------------------------------------------------------------ values
using V = Value<char>;
static std::vector<V> &value_pool() {
    static std::vector<V> *p = nullptr;
    if (p) return *p;
    p = new std::vector<V>();
    auto &P = *p;
    static const char *docs[] = {
        "[]", "[1]", "[1,2]", "[1,2,3]", "{}", "{\"a\":1}", "{\"a\":1,\"b\":2}", "[[],[]]",
    };
    for (const char *d : docs) P.push_back(JSON::Parse(d));
    static const char *strs[] = {"", "a", "ab", "abc", "b", "ba", "aa", "1", "10", "9", "true", "A"};
    for (const char *s : strs) P.push_back(V{String<char>(s)});
    static const unsigned long long us[] = {0ULL, 1ULL, 2ULL, 10ULL, 9007199254740993ULL, 18446744073709551615ULL, 9223372036854775808ULL};
    for (auto u : us) P.push_back(V{u});
    static const long long is[] = {0LL, -1LL, 1LL, -10LL, 10LL, -9223372036854775807LL - 1, 9223372036854775807LL};
    for (auto i : is) P.push_back(V{i});
    static const double ds[] = {0.0, -0.0, 1.0, -1.0, 0.5, 1.5, 1e300, -1e300, 5e-324, 10.0};
    for (auto d : ds) P.push_back(V{d});
    P.push_back(V{true});
    P.push_back(V{false});
    P.push_back(V{nullptr});
    P.push_back(V{});
    P.push_back(V{true});
    P.push_back(V{nullptr});
    return P;
}

static const char *tname(const V &v) {
    switch (v.Type()) {
        case ValueType::Undefined: return "undefined";
        case ValueType::ValuePtr: return "ptr";
        case ValueType::Object: return "object";
        case ValueType::Array: return "array";
        case ValueType::String: return "string";
        case ValueType::UIntLong: return "uint";
        case ValueType::IntLong: return "int";
        case ValueType::Double: return "double";
        case ValueType::True: return "true";
        case ValueType::False: return "false";
        default: return "null";
    }
}

static void values_case(uint64_t c) {
    std::vector<V> &P = value_pool();
    if (c >= P.size()) return;
    const V &a = P[c];
    for (size_t j = 0; j < P.size(); ++j) {
        const V &b  = P[j];
        bool     lt = a < b, gt = a > b, eq = a == b, le = a <= b, ge = a >= b;
        vf::count("value_pairs");
        int n = int(lt) + int(gt) + int(eq);
        std::string pairk = std::string(tname(a)) + "-" + tname(b);
        if (n != 1) {
            vf::fail(("c15:value:trichotomy:" + std::string(a.Type() == b.Type() ? "same-kind" : "cross-kind")).c_str(),
                     "%s a=%s b=%s : < %d == %d > %d", pairk.c_str(), a.Stringify().First() ? a.Stringify().First() : tname(a),
                     b.Stringify().First() ? b.Stringify().First() : tname(b), lt, eq, gt);
        } else if (le != (lt || eq) || ge != (gt || eq)) {
            vf::fail(("c15:value:le-ge-not-unions:" + std::string(a.Type() == b.Type() ? "same-kind" : "cross-kind")).c_str(),
                     "%s: < %d == %d > %d <= %d >= %d", pairk.c_str(), lt, eq, gt, le, ge);
        }
        // antisymmetry with the mirrored call
        bool blt = b < a, bgt = b > a, beq = b == a;
        if (lt != bgt || gt != blt || eq != beq) {
            vf::fail(("c15:value:asymmetric:" + std::string(a.Type() == b.Type() ? "same-kind" : "cross-kind")).c_str(),
                     "%s: a<b %d b>a %d | a>b %d b<a %d | a==b %d b==a %d", pairk.c_str(), lt, bgt, gt, blt, eq, beq);
        }
        // a pointer-to-value on the left compares like the value it points to (every operator has that case)
        {
            V pa;
            pa.SetPointerToValue(&a);
            bool plt = pa < b, pgt = pa > b, peq = pa == b, ple = pa <= b, pge = pa >= b;
            vf::count("value_pairs_through_pointer");
            if (plt != lt || pgt != gt || peq != eq || ple != le || pge != ge) {
                vf::fail("c15:value:pointer-operand-differs", "%s: direct < %d == %d > %d <= %d >= %d, through pointer < %d == %d > %d <= %d >= %d",
                         pairk.c_str(), lt, eq, gt, le, ge, plt, peq, pgt, ple, pge);
            }
            // both operands pointers (what sorting an array of pointer-to-value elements compares)
            V pb;
            pb.SetPointerToValue(&b);
            bool qlt = pa < pb, qgt = pa > pb, qeq = pa == pb, qle = pa <= pb, qge = pa >= pb;
            if (qlt != lt || qgt != gt || qeq != eq || qle != le || qge != ge) {
                vf::fail("c15:value:two-pointer-operands-differ", "%s: direct < %d == %d > %d <= %d >= %d, pointer-pointer < %d == %d > %d <= %d >= %d",
                         pairk.c_str(), lt, eq, gt, le, ge, qlt, qeq, qgt, qle, qge);
            }
        }
        // numbers of one kind compare by magnitude
        if (a.Type() == b.Type() && a.IsNumber()) {
            bool e_lt = a.IsUInt64() ? a.GetUInt64() < b.GetUInt64() : (a.IsInt64() ? a.GetInt64() < b.GetInt64() : a.GetDouble() < b.GetDouble());
            if (lt != e_lt) vf::fail("c15:value:number-magnitude", "%s", pairk.c_str());
        }
        for (size_t k = 0; k < P.size(); ++k) {
            const V &cc = P[k];
            vf::count("value_triples");
            if (lt && (b < cc) && !(a < cc)) {
                vf::fail(("c15:value:transitivity:" + std::string((a.Type() == b.Type() && b.Type() == cc.Type()) ? "same-kind" : "cross-kind")).c_str(),
                         "%s-%s", pairk.c_str(), tname(cc));
            }
        }
    }
    vf::distinct(1000 + c);
}

// ------------------------------------------------------------------ sorts
static std::vector<std::string> sort_universe() {
    return {"", "a", "ab", "b", "ba", "abc", "B", "aa", "\xE9", "a\xE9"};
}

static bool ordered(const std::vector<std::string> &v, bool asc) {
    for (size_t i = 1; i < v.size(); ++i) {
        int e = cmp3(v[i - 1], v[i]);
        if (asc ? e > 0 : e < 0) return false;
    }
    return true;
}

static void sorts_case(uint64_t c) {
    vf::Rng                  r(vf::g_seed, c);
    std::vector<std::string> U = sort_universe();
    // enumerate arrays over a 4-value sub-universe up to length 6 for the first 5461 cases, random afterwards
    std::vector<std::string> in;
    if (c < 5461) {
        uint64_t x = c;
        unsigned len = 0;
        uint64_t count = 1;
        while (x >= count) {
            x -= count;
            count *= 4;
            ++len;
        }
        for (unsigned i = 0; i < len; ++i) {
            in.push_back(U[(x % 4) + (c % 2 ? 0 : 1)]);
            x /= 4;
        }
    } else {
        unsigned n = r.below(24);
        for (unsigned i = 0; i < n; ++i) in.push_back(U[r.below(uint32_t(U.size()))] + (r.chance(1, 3) ? std::string(1, char('a' + r.below(3))) : ""));
        if (r.chance(1, 4)) std::sort(in.begin(), in.end());
        if (r.chance(1, 4)) std::reverse(in.begin(), in.end());
    }
    vf::distinct(vf::fnv(&c, 8));
    if (vf::want_sample()) {
        std::string s;
        for (auto &e : in) s += "\"" + e + "\",";
        vf::sample("sort input [%s] through Array<String>, Array<int>, HArray keys, Value array, Value object; ascending and descending", s.c_str());
    }
    for (int dir = 0; dir < 2; ++dir) {
        bool asc = dir == 0;
        // Array<String>
        {
            Array<String<char>> a;
            for (auto &e : in) a += String<char>((const char *)e.data(), SizeT(e.size()));
            a.Sort(asc);
            std::vector<std::string> out;
            for (const String<char> &s : a) out.emplace_back(s.First() ? s.First() : "", s.Length());
            std::vector<std::string> x = in, y = out;
            std::sort(x.begin(), x.end());
            std::sort(y.begin(), y.end());
            vf::count("sorts");
            if (x != y) vf::fail("c15:sort:Array<String>:not-a-permutation", "n=%zu", in.size());
            else if (!ordered(out, asc)) vf::fail("c15:sort:Array<String>:not-ordered", "n=%zu asc=%d", in.size(), asc);
        }
        // Array<int> via lengths (duplicates guaranteed)
        {
            Array<int>       a;
            std::vector<int> m;
            for (auto &e : in) {
                a += int(e.size()) - 1;
                m.push_back(int(e.size()) - 1);
            }
            a.Sort(asc);
            std::sort(m.begin(), m.end());
            if (!asc) std::reverse(m.begin(), m.end());
            vf::count("sorts");
            if (std::vector<int>(a.First(), a.First() + a.Size()) != m) vf::fail("c15:sort:Array<int>:wrong", "n=%zu asc=%d", in.size(), asc);
        }
        // HArray keys (+ removed members) and lookups afterwards
        {
            HArray<String<char>, int> h;
            std::vector<std::string>  keys;
            int                       i = 0;
            for (auto &e : in) {
                h.Insert(String<char>((const char *)e.data(), SizeT(e.size())), int(i));
                if (std::find(keys.begin(), keys.end(), e) == keys.end()) keys.push_back(e);
                ++i;
            }
            std::vector<std::string> removed;
            if (!keys.empty() && r.chance(1, 2)) {
                std::string k = keys[r.below(uint32_t(keys.size()))];
                h.Remove(k.data(), SizeT(k.size()));
                keys.erase(std::find(keys.begin(), keys.end(), k));
                removed.push_back(k);
            }
            h.Sort(asc);
            std::vector<std::string> out;
            for (SizeT k = 0; k < h.Size(); ++k) {
                const String<char> *key = h.GetKey(k);
                if (key != nullptr) out.emplace_back(key->First() ? key->First() : "", key->Length());
            }
            std::vector<std::string> x = keys, y = out;
            std::sort(x.begin(), x.end());
            std::sort(y.begin(), y.end());
            vf::count("sorts");
            if (x != y) vf::fail("c15:sort:HArray:not-a-permutation", "n=%zu", in.size());
            else if (!ordered(out, asc)) vf::fail("c15:sort:HArray:not-ordered", "n=%zu asc=%d", in.size(), asc);
            for (auto &k : keys) {
                SizeT idx;
                if (!h.Has(k.data(), SizeT(k.size())) || !h.GetKeyIndex(idx, k.data(), SizeT(k.size())) || h.GetKey(idx) == nullptr ||
                    std::string(h.GetKey(idx)->First() ? h.GetKey(idx)->First() : "", h.GetKey(idx)->Length()) != k)
                    vf::fail("c15:sort:HArray:lookup-after-sort", "key=%s", k.c_str());
            }
            for (auto &k : removed) {
                if (h.Has(k.data(), SizeT(k.size()))) vf::fail("c15:sort:HArray:removed-key-found-after-sort", "key=%s", k.c_str());
            }
            // insert after sort keeps lookups right
            h.Insert(String<char>("zz"), 7);
            if (!h.Has("zz", 2)) vf::fail("c15:sort:HArray:insert-after-sort", "n=%zu", in.size());
            for (auto &k : keys) {
                if (!h.Has(k.data(), SizeT(k.size()))) vf::fail("c15:sort:HArray:lookup-after-sort-insert", "key=%s", k.c_str());
            }
        }
        // Value array of strings / numbers and Value object
        {
            V arr;
            V obj;
            std::vector<std::string> keys;
            for (auto &e : in) {
                arr += String<char>((const char *)e.data(), SizeT(e.size()));
                obj[String<char>((const char *)e.data(), SizeT(e.size()))] = 1;
                if (std::find(keys.begin(), keys.end(), e) == keys.end()) keys.push_back(e);
            }
            arr.Sort(asc);
            obj.Sort(asc);
            std::vector<std::string> out;
            for (SizeT k = 0; k < arr.Size(); ++k) {
                const V *e = arr.GetValue(k);
                if (e != nullptr && e->IsString()) out.emplace_back(e->StringStorage() ? e->StringStorage() : "", e->Length());
            }
            std::vector<std::string> x = in, y = out;
            std::sort(x.begin(), x.end());
            std::sort(y.begin(), y.end());
            vf::count("sorts", 2);
            if (!in.empty() && x != y) vf::fail("c15:sort:Value-array:not-a-permutation", "n=%zu", in.size());
            else if (!ordered(out, asc)) vf::fail("c15:sort:Value-array:not-ordered", "n=%zu asc=%d", in.size(), asc);
            std::vector<std::string> ko;
            for (SizeT k = 0; k < obj.Size(); ++k) {
                const String<char> *key = obj.GetKey(k);
                if (key != nullptr) ko.emplace_back(key->First() ? key->First() : "", key->Length());
            }
            x = keys;
            y = ko;
            std::sort(x.begin(), x.end());
            std::sort(y.begin(), y.end());
            if (!in.empty() && x != y) vf::fail("c15:sort:Value-object:not-a-permutation", "n=%zu", in.size());
            else if (!ordered(ko, asc)) vf::fail("c15:sort:Value-object:not-ordered", "n=%zu asc=%d", in.size(), asc);
            for (auto &k : keys) {
                if (obj.GetValue(k.data(), SizeT(k.size())) == nullptr) vf::fail("c15:sort:Value-object:lookup-after-sort", "key=%s", k.c_str());
            }
        }
        // <loop sort=...> over a set (works on a private copy; '|' separates the items in the output)
        {
            V root;
            V arr;
            for (auto &e : in) arr += String<char>((const char *)e.data(), SizeT(e.size()));
            std::string before_s;
            {
                String<char> b = arr.Stringify();
                before_s       = std::string(b.First() ? b.First() : "", b.Length());
            }
            root["set"] = Memory::Move(arr);
            std::string tpl = std::string("<loop set=\"set\" value=\"v\" sort=\"") + (asc ? "ascend" : "descend") + "\">{raw:v}|</loop>";
            StringStream<char> out;
            Template::Render(tpl.data(), SizeT(tpl.size()), root, out);
            std::vector<std::string> got;
            std::string              cur;
            for (SizeT k = 0; k < out.Length(); ++k) {
                if (out.First()[k] == '|') {
                    got.push_back(cur);
                    cur.clear();
                } else {
                    cur += out.First()[k];
                }
            }
            std::vector<std::string> x = in, y = got;
            std::sort(x.begin(), x.end());
            std::sort(y.begin(), y.end());
            vf::count("sorts");
            vf::count("loop_sorts");
            if (x != y) vf::fail("c15:sort:loop-attribute:not-a-permutation", "n=%zu out=%s", in.size(), std::string(out.First() ? out.First() : "", out.Length()).c_str());
            else if (!ordered(got, asc)) vf::fail("c15:sort:loop-attribute:not-ordered", "n=%zu asc=%d out=%s", in.size(), asc, std::string(out.First() ? out.First() : "", out.Length()).c_str());
            String<char> after = root["set"].Stringify();
            if (std::string(after.First() ? after.First() : "", after.Length()) != before_s) vf::fail("c15:sort:loop-attribute:source-modified", "n=%zu", in.size());
        }
    }
}

int main(int argc, char **argv) {
    vf::Args    a    = vf::parse_args(argc, argv);
    std::string mode = a.opts("mode", "strings");
    for (uint64_t c = a.from; c < a.to; ++c) {
        vf::begin_case(c);
        if (mode == "strings") {
            if (c < 121) {
                strings_case<char>(c);
                strings_case<char16_t>(c);
                strings_case<char32_t>(c);
                if (vf::want_sample() && c % 30 == 7) vf::sample("string #%" PRIu64 " of the 121-string universe (alphabet a,b,z/euro, length<=4) against all 121 x 121 (b,c): 6 operators x String/StringView/literal overloads x 3 widths", c);
            } else {
                strings_random<char>(c);
                strings_random<char16_t>(c);
                vf::distinct(vf::mix(c));
            }
        } else if (mode == "values") {
            values_case(c);
            if (vf::want_sample()) vf::sample("value #%" PRIu64 " (%s) against every pair/triple of the pool", c, c < value_pool().size() ? tname(value_pool()[c]) : "-");
        } else {
            sorts_case(c);
        }
        vf::end_case(mode != "values"); // the value pool lives for the whole process
    }
    return vf::finish(a);
}
