// C18: Value::GroupBy and <loop group=...> against a reference partition computed on the document model.
#include "vmodel.hpp"

#include <algorithm>

#include "Template.hpp"

using namespace Qentem;
using namespace vm;
using C = char;
using V = Value<C>;
using M = MV<C>;
using S = std::string;

static S text_of(const M &m, bool &ok) {
    char b[64];
    ok = true;
    switch (m.k) {
        case K::Str: return m.s;
        case K::U64: snprintf(b, sizeof(b), "%llu", (unsigned long long)m.u); return b;
        case K::I64: snprintf(b, sizeof(b), "%lld", (long long)m.i); return b;
        case K::Dbl: snprintf(b, sizeof(b), "%.15g", m.d); return b;
        case K::True: return "true";
        case K::False: return "false";
        case K::Null: return "null";
        default: ok = false; return "";
    }
}

static void run_case(uint64_t c) {
    vf::Rng  r(vf::g_seed, c);
    Gen<C>   g(r);
    static const char *keys[]   = {"y", "year", "k", "ax"};
    static const char *others[] = {"m", "name", "bx", "cx", "z", "a", "yy"};
    S                  gk       = keys[r.below(4)];
    unsigned           nrec     = r.below(13);
    unsigned           ngroups  = 1 + r.below(6);
    unsigned           kkind    = r.below(6); // kind of the key values
    bool               scalar_members = (c % 2) == 0; // the template variant prints member values
    // group key value pool
    std::vector<M> kv;
    for (unsigned i = 0; i < ngroups; ++i) {
        switch (kkind) {
            case 0: kv.push_back(M::Str(S("g") + std::to_string(i))); break;
            case 1: kv.push_back(M::U(2000 + i)); break;
            case 2: kv.push_back(M::I(-int64_t(i) - 1)); break;
            case 3: kv.push_back(i == 0 ? M::Kind(K::True) : (i == 1 ? M::Kind(K::False) : (i == 2 ? M::Kind(K::Null) : M::Str(S("s") + std::to_string(i))))); break;
            case 4: kv.push_back(M::D(double(i) + 0.25 * double(i % 4))); break;
            default: kv.push_back(i % 2 ? M::Str(std::to_string(i)) : M::U(i)); // "1" and 1 are the same textual value? no: distinct i
        }
    }
    V arr;
    M am = M::Kind(K::Arr);
    arr  = V::ArrayT{};
    unsigned removed_records = 0;
    std::vector<unsigned> keypos;
    for (unsigned i = 0; i < nrec; ++i) {
        V        rec{V::ObjectT{}};
        M        rm  = M::Kind(K::Obj);
        unsigned nm  = r.below(5);
        unsigned pos = r.below(nm + 1);
        keypos.push_back(pos);
        std::vector<S> used;
        bool           will_remove = r.chance(1, 4);
        for (unsigned j = 0; j <= nm; ++j) {
            if (j == pos) {
                const M &kvv = kv[r.below(ngroups)];
                V        val;
                switch (kvv.k) {
                    case K::Str: val = String<C>(kvv.s.data(), SizeT(kvv.s.size())); break;
                    case K::U64: val = (unsigned long long)kvv.u; break;
                    case K::I64: val = (long long)kvv.i; break;
                    case K::Dbl: val = kvv.d; break;
                    case K::True: val = true; break;
                    case K::False: val = false; break;
                    default: val = nullptr;
                }
                rec[gk.c_str()]   = Memory::Move(val);
                rm.upsert(gk)     = kvv;
            } else {
                // (one name in six has an embedded NUL or is the equal-hash prefix of another name: only the stored length
                // tells "p\0x" from "p\0y" from "p", and "s" from "sh")
                static const S odd[] = {S("p\0x", 3), S("p\0y", 3), S("p", 1), S("s", 1), S("sh", 2), S("\0", 1)};
                S name = r.chance(1, 6) ? odd[r.below(6)] : S(others[r.below(7)]);
                if (std::find(used.begin(), used.end(), name) != used.end()) continue;
                used.push_back(name);
                V e;
                M em;
                if (scalar_members) {
                    switch (r.below(5)) {
                        case 0: e = (unsigned long long)r.below(1000); em = M::U(e.GetUInt64()); break;
                        case 1: e = (long long)-int(r.below(1000)); em = M::I(e.GetInt64()); break;
                        case 2: {
                            S t = "v" + std::to_string(r.below(50));
                            e   = String<C>((const C *)t.data(), SizeT(t.size()));
                            em  = M::Str(t);
                            break;
                        }
                        case 3: e = true; em = M::Kind(K::True); break;
                        default: e = nullptr; em = M::Kind(K::Null);
                    }
                } else {
                    g.tree(e, em, 2, true, 0);
                    if (em.k == K::Undef) {
                        e  = 1ULL;
                        em = M::U(1);
                    }
                }
                rec[String<C>((const C *)name.data(), SizeT(name.size()))] = Memory::Move(e);
                rm.upsert(name)                                             = em;
            }
        }
        if (will_remove && !used.empty()) {
            // a removed member before or after the key
            const S &victim = used[r.below(uint32_t(used.size()))];
            rec.Remove(String<C>((const C *)victim.data(), SizeT(victim.size())));
            int mi = rm.find(victim);
            rm.obj[size_t(mi)].live = false;
            rm.obj[size_t(mi)].val.reset();
            ++removed_records;
        }
        arr += Memory::Move(rec);
        am.arr.push_back(rm);
    }
    // reference partition
    M expect = M::Kind(K::Obj);
    for (auto &rm : am.arr) {
        int  ki = rm.find(gk);
        bool ok;
        S    name = text_of(rm.obj[size_t(ki)].val, ok);
        M    sub  = M::Kind(K::Obj);
        for (auto &mm : rm.obj) {
            if (!mm.live || mm.key == gk) continue;
            sub.upsert(mm.key) = mm.val;
        }
        M &grp = expect.upsert(name);
        grp.k  = K::Arr;
        grp.arr.push_back(sub);
    }
    vf::distinct(vf::fnv(keypos.data(), keypos.size() * sizeof(unsigned), vf::mix(c)));
    vf::count("arrays");
    vf::count("records", nrec);
    vf::count("records_with_removed_member", removed_records);
    vf::count("groups", expect.obj.size());
    for (size_t i = 1; i < keypos.size(); ++i) {
        if (keypos[i] != keypos[0]) {
            vf::count("arrays_with_varying_key_position");
            break;
        }
    }
    if (vf::want_sample()) {
        String<C> t = arr.Stringify();
        vf::sample("group by \"%s\": %s", gk.c_str(), vf::show(t.First(), t.Length(), 400).c_str());
    }
    if (vf::g_verbose) {
        String<C> t = arr.Stringify();
        fprintf(stderr, "TRACE array=%s key=%s\n", t.First() ? t.First() : "", gk.c_str());
    }
    String<C> before = arr.Stringify(17U);
    // ---- GroupBy
    {
        V    grouped;
        bool ok = arr.GroupBy(grouped, gk.data(), SizeT(gk.size()));
        const char *cls = removed_records ? ":with-removed-member" : "";
        if (nrec == 0) {
            // nothing to group: the statement gives no result for an empty array; only safety is observed
        } else if (!ok) {
            vf::fail((S("c18:groupby:returned-false") + cls).c_str(), "records=%u key=%s", nrec, gk.c_str());
        } else {
            Cmp<C> cm;
            cm.strict_double = true;
            if (!cm.eq(grouped, expect)) {
                bool varying = false;
                for (size_t i = 1; i < keypos.size(); ++i) varying |= keypos[i] != keypos[0];
                String<C> gs = grouped.Stringify();
                vf::fail((S("c18:groupby:partition-differs") + (varying ? ":key-position-varies" : "") + cls).c_str(), "%s grouped=%s", cm.why.c_str(),
                         vf::show(gs.First(), gs.Length(), 500).c_str());
            }
        }
        String<C> after = arr.Stringify(17U);
        if (!(after == before)) vf::fail("c18:groupby:source-modified", "records=%u", nrec);
        Cmp<C> cm2;
        if (!cm2.eq(arr, am)) vf::fail("c18:groupby:source-modified", "%s", cm2.why.c_str());
    }
    // ---- <loop group=...>
    if (scalar_members && nrec != 0) {
        V root;
        root["s"] = arr;
        S tpl     = S("<loop set=\"s\" value=\"g\" group=\"") + gk + "\">G({var:g}):<loop set=\"g\" value=\"r\">R(<loop set=\"r\" value=\"m\">{raw:m};</loop>)</loop>|</loop>";
        StringStream<C> out;
        Template::Render(tpl.data(), SizeT(tpl.size()), root, out);
        S exp;
        for (auto &grp : expect.obj) {
            exp += "G(" + grp.key + "):";
            for (auto &rec : grp.val.arr) {
                exp += "R(";
                for (auto &mm : rec.obj) {
                    bool ok;
                    exp += text_of(mm.val, ok) + ";";
                }
                exp += ")";
            }
            exp += "|";
        }
        S got(out.First() ? out.First() : "", out.Length());
        vf::count("loop_group_renders");
        if (got != exp) vf::fail(removed_records ? "c18:loop-group:output-differs:with-removed-member" : "c18:loop-group:output-differs", "got=%s expected=%s", got.c_str(), exp.c_str());
    }
}

int main(int argc, char **argv) {
    vf::Args a = vf::parse_args(argc, argv);
    for (uint64_t c = a.from; c < a.to; ++c) {
        vf::begin_case(c);
        run_case(c);
        vf::end_case(true);
    }
    return vf::finish(a);
}
