// C09 / C10 / C11: text <-> number conversion against glibc (strtod / snprintf are correctly rounded).
//   --opt mode=c11   double/float round trip, a case = a batch of values
//   --opt mode=c11f  exhaustive floats: case c covers floats [c<<16, (c+1)<<16)
//   --opt mode=c09   numerals vs strtod / exact __int128 integer classification
//   --opt mode=c10   NumberToString vs snprintf
//   --opt mode=c10f  exhaustive floats for (Default,6) (Default,9) (Fixed,2): case c covers [c<<16,(c+1)<<16)
#include "common.hpp"

#include <cmath>
#include <limits>

#include "Digit.hpp"
#include "StringStream.hpp"
#include "JSON.hpp"

using namespace Qentem;

static inline uint64_t dbits(double d) {
    uint64_t b;
    memcpy(&b, &d, 8);
    return b;
}
static inline double bdouble(uint64_t b) {
    double d;
    memcpy(&d, &b, 8);
    return d;
}
static inline uint32_t fbits(float f) {
    uint32_t b;
    memcpy(&b, &f, 4);
    return b;
}
static inline float bfloat(uint32_t b) {
    float f;
    memcpy(&f, &b, 4);
    return f;
}

template <typename C>
static std::string narrow(const C *s, size_t n) {
    std::string o;
    for (size_t i = 0; i < n; ++i) o += char(s[i]);
    return o;
}

// ------------------------------------------------------------------ value generators
static double gen_double(vf::Rng &r, uint64_t variant) {
    if (variant % 13 == 12) {
        // the double nearest to a short decimal (1..17 digits x 10^e over the whole range): prints with few digits and
        // many zeros, and parses back through the exact-product paths rather than the rounding ones
        std::string t;
        unsigned    nd = r.range(1, 17);
        for (unsigned i = 0; i < nd; ++i) t += char('0' + (i == 0 ? 1 + r.below(9) : r.below(10)));
        int e = int(r.below(616)) - 308 - int(nd);
        if (r.chance(1, 2)) e = int(r.below(45)) - 5; // integers up to ~1e40 with trailing zeros
        t += "e" + std::to_string(e);
        double v = strtod(t.c_str(), nullptr);
        if (std::isinf(v)) v = 1.7976931348623157e308;
        return r.chance(1, 4) ? -v : v;
    }
    if (variant % 13 == 11) {
        // tiny values with short mantissas (m * 2^-k, m below 2^28; floats widened to double look like this): their
        // expansions are exact for hundreds of digits and the formatter cuts its big integer while scaling them
        uint64_t m = 1 + (r.next() % (uint64_t{1} << (1 + r.below(28))));
        double   v = std::ldexp(double(m), -int(60 + r.below(1010)));
        return r.chance(1, 4) ? -v : v;
    }
    switch (variant % 10) {
        case 0: { // uniform over finite bit patterns
            for (;;) {
                uint64_t b = r.next();
                if (((b >> 52) & 0x7FF) != 0x7FF) return bdouble(b);
            }
        }
        case 1: { // per binade: chosen exponent, random mantissa
            uint64_t e = r.below(2047);
            uint64_t b = (r.next() & 0x800FFFFFFFFFFFFFULL) | (e << 52);
            return bdouble(b);
        }
        case 2: { // neighbours of powers of two
            uint64_t e = r.below(2046) + 1;
            uint64_t b = (e << 52);
            int64_t  d = int64_t(r.below(7)) - 3;
            b          = uint64_t(int64_t(b) + d);
            if (r.chance(1, 2)) b |= 0x8000000000000000ULL;
            if (((b >> 52) & 0x7FF) == 0x7FF) b = 0x7FEFFFFFFFFFFFFFULL;
            return bdouble(b);
        }
        case 3: { // neighbours of powers of ten
            int      p = int(r.below(617)) - 308;
            double   v = strtod(("1e" + std::to_string(p)).c_str(), nullptr);
            uint64_t b = dbits(v);
            int64_t  d = int64_t(r.below(7)) - 3;
            b          = uint64_t(int64_t(b) + d);
            if (r.chance(1, 2)) b |= 0x8000000000000000ULL;
            return bdouble(b);
        }
        case 4: { // subnormals
            uint64_t b = r.next() & 0x000FFFFFFFFFFFFFULL;
            if (r.chance(1, 4)) b &= (uint64_t{1} << r.below(52)) - 1 | 1;
            if (r.chance(1, 2)) b |= 0x8000000000000000ULL;
            return bdouble(b);
        }
        case 5: { // k / 10^j and neighbours (decimal ties for the formatter)
            uint64_t k = r.next() % 100000000ULL;
            if (r.chance(1, 2)) k = k / 10 * 10 + 5;
            int      j = int(r.below(12));
            double   v = double(k);
            for (int i = 0; i < j; ++i) v /= 10.0;
            uint64_t b = dbits(v);
            int64_t  d = int64_t(r.below(3)) - 1;
            b          = uint64_t(int64_t(b) + d);
            if (r.chance(1, 4)) b |= 0x8000000000000000ULL;
            return bdouble(b);
        }
        case 6: { // integer-valued with trailing zeros plus a small fraction
            uint64_t k = (r.next() % 1000000ULL) * uint64_t(pow(10, r.below(6)));
            double   f = double(r.below(1000)) / double(pow(10, 3 + r.below(5)));
            double   v = double(k) + f;
            if (r.chance(1, 4)) v = -v;
            return v;
        }
        case 7: { // small integers and halves
            double v = double(r.below(200000)) / (r.chance(1, 2) ? 1.0 : (r.chance(1, 2) ? 2.0 : 8.0));
            if (r.chance(1, 4)) v = -v;
            return v;
        }
        case 8: { // specials
            static const uint64_t sp[] = {0x0ULL, 0x8000000000000000ULL, 0x1ULL, 0x8000000000000001ULL,
                                          0x000FFFFFFFFFFFFFULL, 0x0010000000000000ULL, 0x7FEFFFFFFFFFFFFFULL,
                                          0xFFEFFFFFFFFFFFFFULL, 0x3FF0000000000000ULL, 0x4340000000000000ULL,
                                          0x433FFFFFFFFFFFFFULL, 0x43E0000000000000ULL, 0x43F0000000000000ULL,
                                          0x3FB999999999999AULL, 0x40C5C70020C49BA6ULL /*11150.001*/,
                                          0x4169532F00041893ULL, 0x3FE0000000000000ULL, 0x4024000000000000ULL};
            return bdouble(sp[r.below(sizeof(sp) / sizeof(sp[0]))]);
        }
        default: { // moderate magnitudes typical for templates
            double v = double(int64_t(r.next() % 2000000000000ULL)) / 1000.0 / double(pow(10, r.below(6)));
            if (r.chance(1, 4)) v = -v;
            return v;
        }
    }
}

// ------------------------------------------------------------------ C11
template <typename Char_T>
static void c11_double(double d) {
    StringStream<Char_T> st;
    Digit::NumberToString(st, d, Digit::RealFormatInfo{17U});
    QNumber64   n;
    SizeT       off = 0;
    // The text is parsed where a caller would find it next: one time in three in an exact-size block (a read past the
    // length is an ASan report), otherwise inside a longer buffer directly followed by a unit that would continue a
    // numeral ('e', '.', a digit, a sign): the length, not the neighbour, ends the numeral.
    static unsigned      rot = 0;
    std::vector<Char_T>  around(st.First(), st.First() + st.Length());
    static const char    follow[] = {'e', 'E', '.', '7', '0', '-', '+'};
    if ((++rot % 3) != 0) around.push_back(Char_T(follow[rot % 7]));
    vf::ExactBuf<Char_T> exact(around.data(), around.size());
    QNumberType t   = Digit::StringToNumber(n, (const Char_T *)exact.p, off, st.Length());
    double      back;
    switch (t) {
        case QNumberType::Natural: back = double(n.Natural); break;
        case QNumberType::Integer: back = double(n.Integer); break;
        case QNumberType::Real: back = n.Real; break;
        default: back = std::numeric_limits<double>::quiet_NaN();
    }
    vf::count("c11_doubles");
    if (off != st.Length() || dbits(back) != dbits(d)) {
        vf::fail("c11:double-roundtrip", "bits=%016" PRIx64 " (%.17g) text=%s kind=%d back=%016" PRIx64 " consumed=%u/%u",
                 dbits(d), d, narrow(st.First(), st.Length()).c_str(), int(t), dbits(back), unsigned(off),
                 unsigned(st.Length()));
    }
}

template <typename Char_T>
static void c11_float(float f) {
    StringStream<Char_T> st;
    Digit::NumberToString(st, f, Digit::RealFormatInfo{9U});
    QNumber64   n;
    SizeT       off = 0;
    QNumberType t   = Digit::StringToNumber(n, st.First(), off, st.Length());
    double      back;
    switch (t) {
        case QNumberType::Natural: back = double(n.Natural); break;
        case QNumberType::Integer: back = double(n.Integer); break;
        case QNumberType::Real: back = n.Real; break;
        default: back = std::numeric_limits<double>::quiet_NaN();
    }
    float fb = float(back);
    if (off != st.Length() || fbits(fb) != fbits(f)) {
        vf::fail("c11:float-roundtrip", "bits=%08x (%.9g) text=%s kind=%d back=%08x", fbits(f), double(f),
                 narrow(st.First(), st.Length()).c_str(), int(t), fbits(fb));
    }
}

static void run_c11(uint64_t c) {
    vf::Rng r(vf::g_seed, c);
    const int N = 2048;
    uint64_t  binades = 0;
    for (int i = 0; i < N; ++i) {
        double d = gen_double(r, uint64_t(i));
        if ((i & 7) == 0) c11_double<char16_t>(d);
        else if ((i & 7) == 1) c11_double<char32_t>(d);
        else c11_double<char>(d);
        vf::distinct(dbits(d));
        vf::g_counters["binade_" + std::to_string(((dbits(d) >> 52) & 0x7FF) >> 6)] += 1;
        if (i == 0 && vf::want_sample()) {
            StringStream<char> st;
            Digit::NumberToString(st, d, Digit::RealFormatInfo{17U});
            vf::sample("double bits=%016" PRIx64 " -> \"%s\" -> parsed back bit-identical", dbits(d),
                       narrow(st.First(), st.Length()).c_str());
        }
    }
    (void)binades;
    // "hence numbers pass through any number of stringify / parse cycles unchanged": two cycles of a document holding 48
    // of this batch's doubles, stringified with 17 digits from the document itself and from a pointer-to-value to it
    {
        Value<char>         doc;
        std::vector<double> ds;
        vf::Rng             r2(vf::g_seed ^ 0x5151, c);
        for (int i = 0; i < 48; ++i) {
            double d = gen_double(r2, uint64_t(i) * 7 + c);
            if (d == 0.0 && std::signbit(d)) d = 0.0; // "-0" parses as the integer 0: not a real any more, out of scope here
            ds.push_back(d);
            if (i % 3 == 0) doc[(std::string("k") + std::to_string(i)).c_str()] = d;
            else doc["list"] += d;
        }
        Value<char> view;
        view.SetPointerToValue(&doc);
        for (int variant = 0; variant < 2; ++variant) {
            StringStream<char> s1, s2;
            (variant == 0 ? doc : view).Stringify(s1, 17U);
            Value<char> p1 = JSON::Parse(s1.First(), s1.Length());
            p1.Stringify(s2, 17U);
            Value<char> p2 = JSON::Parse(s2.First(), s2.Length());
            vf::count("c11_json_cycles", 2);
            size_t li = 0;
            bool   ok = !p2.IsUndefined();
            for (int i = 0; ok && i < 48; ++i) {
                const Value<char> *m = (i % 3 == 0) ? p2.GetValue((std::string("k") + std::to_string(i)).c_str()) : (p2.GetValue("list") ? p2.GetValue("list")->GetValue(SizeT(li++)) : nullptr);
                if (m == nullptr || !m->IsNumber()) {
                    ok = false;
                    break;
                }
                double back = m->GetDouble();
                if (dbits(back) != dbits(ds[size_t(i)]) && !(ds[size_t(i)] == back && std::floor(back) == back && std::fabs(back) < 1.8e19)) {
                    // (integral values come back as integers: equal value is what the cycle promises for them)
                    vf::fail(variant == 0 ? "c11:json-cycle" : "c11:json-cycle:through-pointer", "bits=%016" PRIx64 " (%.17g) came back as %.17g text=%.200s", dbits(ds[size_t(i)]), ds[size_t(i)], back,
                             narrow(s1.First(), s1.Length() < 200 ? s1.Length() : 200).c_str());
                    break;
                }
            }
            if (!ok) vf::fail(variant == 0 ? "c11:json-cycle" : "c11:json-cycle:through-pointer", "document did not come back: text=%.300s", narrow(s1.First(), s1.Length() < 300 ? s1.Length() : 300).c_str());
        }
    }
    // floats
    for (int i = 0; i < 512; ++i) {
        uint32_t b = uint32_t(r.next());
        if (((b >> 23) & 0xFF) == 0xFF) continue;
        c11_float<char>(bfloat(b));
        vf::count("c11_floats");
    }
}

static void run_c11f(uint64_t c) {
    uint32_t base = uint32_t(c) << 16;
    for (uint32_t i = 0; i < 65536; ++i) {
        uint32_t b = base + i;
        if (((b >> 23) & 0xFF) == 0xFF) continue;
        c11_float<char>(bfloat(b));
        vf::count("c11_floats");
    }
    vf::distinct(c);
    if (vf::want_sample() && (c % 9000) == 17) {
        StringStream<char> st;
        Digit::NumberToString(st, bfloat(base + 5), Digit::RealFormatInfo{9U});
        vf::sample("float block %08x..%08x e.g. bits=%08x -> \"%s\"", base, base + 65535, base + 5,
                   narrow(st.First(), st.Length()).c_str());
    }
}

// ------------------------------------------------------------------ C09
struct Expect09 {
    enum Kind { Natural, Integer, Real, Reject, Overflow } kind;
    uint64_t nat  = 0;
    int64_t  intg = 0;
    double   real = 0;
};

// classify a grammar-conformant numeral exactly
static Expect09 classify(const std::string &s) {
    Expect09 e;
    size_t   i   = 0;
    bool     neg = false;
    if (s[i] == '+' || s[i] == '-') {
        neg = s[i] == '-';
        ++i;
    }
    bool pure_int = true;
    for (size_t k = i; k < s.size(); ++k) {
        if (s[k] < '0' || s[k] > '9') pure_int = false;
    }
    if (pure_int) {
        unsigned __int128 v   = 0;
        bool              big = false;
        for (size_t k = i; k < s.size(); ++k) {
            v = v * 10 + unsigned(s[k] - '0');
            if (v > ((unsigned __int128)1 << 70)) {
                big = true;
                break;
            }
        }
        if (!big) {
            if (!neg && v <= (unsigned __int128)UINT64_MAX) {
                e.kind = Expect09::Natural;
                e.nat  = uint64_t(v);
                return e;
            }
            if (neg && v == 0) { // "-0": the sign can only be kept by a real
                e.kind = Expect09::Real;
                e.real = -0.0;
                return e;
            }
            if (neg && v <= ((unsigned __int128)1 << 63)) {
                e.kind = Expect09::Integer;
                e.intg = int64_t(-(__int128)v);
                return e;
            }
        }
    }
    errno  = 0;
    e.real = strtod(s.c_str(), nullptr);
    e.kind = std::isinf(e.real) ? Expect09::Overflow : Expect09::Real;
    return e;
}

static int64_t ulp_distance(double a, double b) {
    int64_t x = int64_t(dbits(a)), y = int64_t(dbits(b));
    if (x < 0) x = int64_t(0x8000000000000000ULL) - x;
    if (y < 0) y = int64_t(0x8000000000000000ULL) - y;
    int64_t d = x - y;
    return d < 0 ? -d : d;
}

static std::string digits(vf::Rng &r, unsigned n, bool nonzero_first) {
    std::string s;
    for (unsigned i = 0; i < n; ++i) {
        char ch = char('0' + r.below(10));
        if (i == 0 && nonzero_first && ch == '0') ch = char('1' + r.below(9));
        s += ch;
    }
    return s;
}

static std::string exact_decimal(long double v) {
    char buf[16000];
    snprintf(buf, sizeof(buf), "%.11500Lf", v);
    std::string s = buf;
    // strip trailing zeros of the fraction
    size_t dot = s.find('.');
    if (dot != std::string::npos) {
        size_t e = s.size();
        while (e > dot + 1 && s[e - 1] == '0') --e;
        if (e == dot + 1) --e;
        s.resize(e);
    }
    return s;
}

// returns numeral text; cls receives the generator class; malformed=true for the must-reject families
static std::string gen_numeral(vf::Rng &r, uint64_t variant, const char *&cls, bool &malformed) {
    malformed = false;
    std::string s;
    std::string sign = r.chance(1, 3) ? "-" : (r.chance(1, 6) ? "+" : "");
    switch (variant % 12) {
        case 0: {
            cls = "integer";
            s   = sign + digits(r, r.range(1, 25), true);
            return s;
        }
        case 1: {
            cls = "integer-boundary";
            static const char *b[] = {"9223372036854775807", "9223372036854775808", "9223372036854775809",
                                      "18446744073709551615", "18446744073709551616", "18446744073709551614",
                                      "10000000000000000000", "9999999999999999999", "18446744073709551609",
                                      "18446744073709551610", "1844674407370955161", "18446744073709551620",
                                      "9007199254740993", "9007199254740992", "99999999999999999999", "0", "1", "9", "10"};
            s = sign + b[r.below(sizeof(b) / sizeof(b[0]))];
            if (r.chance(1, 3)) {
                // the same long integers continued as reals: the hand-over from the integer path happens at their last digits
                static const char *tails[] = {".5", ".0", "e3", "E3", "E+2", "e-2", "E-19", ".25e1", "e0", "E0"};
                s += tails[r.below(10)];
                cls = "integer-boundary-continued";
            }
            return s;
        }
        case 2: {
            cls = "decimal";
            bool zero_int = r.chance(1, 3);
            s   = sign + (zero_int ? std::string("0") : digits(r, r.range(1, 22), true)) + "." + digits(r, r.range(1, 30), false);
            return s;
        }
        case 3: {
            if (r.chance(1, 2)) {
                // one value d.ddd x 10^E, many spellings: zeros between the point and the first digit, trailing zeros
                // before the exponent, the point anywhere; E leans towards both ends of the double range, where the
                // written exponent alone says nothing about the magnitude
                cls   = "spelling";
                int E = r.chance(1, 2) ? (r.chance(1, 2) ? -322 + int(r.below(40)) : 285 + int(r.below(28))) : int(r.below(632)) - 322; // (below the subnormals: not generated)
                std::string D = digits(r, r.range(1, 20), true);
                unsigned    k = r.chance(1, 3) ? r.below(5) : r.below(45);
                long        x;
                switch (r.below(3)) {
                    case 0:
                        s = "0." + std::string(k, '0') + D;
                        x = long(E) + 1 + long(k);
                        break;
                    case 1:
                        s = D + std::string(k, '0');
                        x = long(E) - long(D.size() - 1) - long(k);
                        break;
                    default: {
                        size_t j = 1 + r.below(uint32_t(D.size()));
                        s        = D.substr(0, j) + (j < D.size() ? "." + D.substr(j) : std::string());
                        x        = long(E) - long(j - 1);
                    }
                }
                s = sign + s + (r.chance(1, 2) ? "e" : "E") + (x < 0 ? "-" : (r.chance(1, 2) ? "+" : "")) + std::to_string(x < 0 ? -x : x);
                return s;
            }
            cls   = "exponent";
            int e = int(r.below(640)) - 330;
            std::string m = digits(r, r.range(1, 18), true);
            if (r.chance(1, 2)) m += "." + digits(r, r.range(1, 18), false);
            // keep magnitude inside [1e-323, 1e308]
            int mag = int(m.find('.') == std::string::npos ? m.size() : m.find('.'));
            if (e + mag > 308) e = 308 - mag;
            if (e + mag < -322) e = -322 - mag;
            s = sign + m + (r.chance(1, 2) ? "e" : "E") + (e < 0 ? "-" : (r.chance(1, 2) ? "+" : "")) +
                std::to_string(e < 0 ? -e : e);
            return s;
        }
        case 4: {
            cls = "long-mantissa";
            unsigned n = r.range(20, 400);
            s   = sign + digits(r, n, true);
            if (r.chance(1, 2)) s.insert(sign.size() + 1 + r.below(n - 1), ".");
            if (r.chance(1, 2)) {
                int mag = int(n);
                int e   = int(r.below(600)) - 300;
                if (e + mag > 300) e = 300 - mag;
                if (e + mag < -300) e = -300 - mag;
                s += (r.chance(1, 2) ? "e" : "E") + std::to_string(e);
            } else if (s.find('.') == std::string::npos && n > 300) {
                s.resize(sign.size() + 300);
            }
            return s;
        }
        case 5:
        case 6: { // halfway between two adjacent doubles, exactly / just above / just below
            cls         = "tie";
            uint64_t b;
            if (variant % 12 == 5) {
                uint64_t e = 1023 - 60 + r.below(130); // magnitudes 1e-18 .. 1e21: expansions stay short
                b          = (r.next() & 0x000FFFFFFFFFFFFFULL) | (e << 52);
            } else {
                uint64_t e = r.chance(1, 8) ? 0 : r.below(2046);
                b          = (r.next() & 0x000FFFFFFFFFFFFFULL) | (e << 52);
                if (r.chance(1, 3)) b &= ~uint64_t{0xFFFFF}; // many trailing zero bits: short expansions
            }
            // 2 in 12: all-ones mantissa, so the upper neighbour is a power of two and rounding up carries out of the
            // mantissa into the exponent; one of the two takes the power of two itself instead of the midpoint
            const unsigned shape = r.below(12);
            if (shape < 2) b |= 0x000FFFFFFFFFFFFFULL;
            else if (shape == 2) b &= ~uint64_t{0x000FFFFFFFFFFFFF}; // lower neighbour is the power of two
            double      lo  = bdouble(b);
            double      hi  = bdouble(b + 1);
            if (std::isinf(hi)) hi = lo;
            long double mid = (shape == 1) ? (long double)hi : ((long double)lo + (long double)hi) / 2.0L;
            std::string t   = exact_decimal(mid);
            unsigned    k   = r.below(3);
            if (k == 1) {
                cls = "tie-above";
                if (t.find('.') == std::string::npos) t += ".";
                t += "0000001";
            } else if (k == 2) {
                cls = "tie-below";
                // decrement the last non-zero digit position by appending ...9999 after lowering the last digit
                size_t p = t.size() - 1;
                while (p > 0 && (t[p] == '0' || t[p] == '.')) --p;
                if (t[p] > '0' && t[p] <= '9') {
                    t[p] = char(t[p] - 1);
                    if (t.find('.') == std::string::npos) t += ".";
                    t += "9999999";
                }
            }
            // long leading "0.000000" forms are kept: they exercise the fraction-only path; one in three is re-expressed
            // with the point elsewhere and a compensating exponent (same value, other code path)
            if (r.chance(1, 3) && t.size() < 700) {
                size_t      dot = t.find('.');
                std::string dg  = t;
                long        ex  = 0;
                if (dot != std::string::npos) {
                    dg.erase(dot, 1);
                    ex = -long(t.size() - dot - 1);
                }
                size_t nz = dg.find_first_not_of('0');
                if (nz != std::string::npos && nz + 1 < dg.size()) {
                    dg = dg.substr(nz);
                    // new point after `keep` digits (0 = "0.ddd")
                    size_t keep = r.below(uint32_t(dg.size() < 30 ? dg.size() : 30) + 1);
                    long   e2   = ex + long(dg.size() - keep);
                    std::string m = keep == 0 ? ("0." + dg) : (keep == dg.size() ? dg : dg.substr(0, keep) + "." + dg.substr(keep));
                    t = m + (r.chance(1, 2) ? "e" : "E") + std::to_string(e2);
                }
            }
            s = sign + t;
            return s;
        }
        case 7: {
            cls = "overflow-range";
            static const char *b[] = {"1.7976931348623157e308", "1.7976931348623158e308", "1.7976931348623159e308",
                                      "1.797693134862315807e308", "1.8e308", "2e308", "9e308", "1e309", "1e310",
                                      "7663944e+302", "17976931348623157e292", "17976931348623159e292", "1e400",
                                      "1e4294967296", "1e4294967295", "1e99999999999", "5e2147483648", "1e-4294967296",
                                      "179769313486231580793728971405303415079934132710037826936173778980444968292764750946649017977587207096330286416692887910946555547851940402630657488671505820681908902000708383676273854845817711531764475730270069855571366959622842914819860834936475292719074168444365510704342711559699508093042880177904174497791.9",
                                      "179769313486231580793728971405303415079934132710037826936173778980444968292764750946649017977587207096330286416692887910946555547851940402630657488671505820681908902000708383676273854845817711531764475730270069855571366959622842914819860834936475292719074168444365510704342711559699508093042880177904174497792",
                                      "0.00001e314", "123456789012345678901234567890e280"};
            s = sign + b[r.below(sizeof(b) / sizeof(b[0]))];
            if (s.find("e-4294967296") != std::string::npos) s = sign + "1e-300"; // below-subnormal is not generated
            return s;
        }
        case 8: {
            cls = "subnormal-range";
            static const char *b[] = {"4.9406564584124654e-324", "4.9e-324", "5e-324", "2.48e-324", "3e-324", "7.4e-324",
                                      "1e-323", "2.2250738585072014e-308", "2.2250738585072011e-308",
                                      "2.2250738585072009e-308", "1.5e-310", "0.000000000000000000000000000001e-290",
                                      "49406564584124654e-340", "2.4703282292062329e-324"};
            s = sign + b[r.below(sizeof(b) / sizeof(b[0]))];
            return s;
        }
        case 9: {
            cls = "zero-forms";
            static const char *b[] = {"0", "0.0", "0.000", "0e0", "0e5", "0.0e-5", "0E+3", "0.00000000000000000000"};
            s = sign + b[r.below(sizeof(b) / sizeof(b[0]))];
            return s;
        }
        case 10: {
            cls       = "malformed";
            malformed = true;
            switch (r.below(8)) {
                case 0: s = sign + "0" + digits(r, r.range(1, 6), false); break;                         // leading zero
                case 1: s = sign + "00." + digits(r, r.range(1, 4), false); break;                      // leading zeros
                case 2: s = sign + "."; break;                                                           // lone dot
                case 3: s = sign + digits(r, r.range(1, 5), true) + ".." + digits(r, 2, false); break;  // repeated dot
                case 4: s = sign + digits(r, r.range(1, 5), true) + "." + digits(r, 2, false) + "." + digits(r, 1, false); break;
                case 5: s = sign + digits(r, r.range(1, 5), true) + (r.chance(1, 2) ? "e" : "E"); break; // empty exponent
                case 6: s = sign + digits(r, r.range(1, 5), true) + "." + digits(r, 2, false) + "e" + (r.chance(1, 2) ? "+" : "-"); break;
                default: s = sign + "0" + digits(r, 1, false) + "." + digits(r, 3, false); break;
            }
            return s;
        }
        default: {
            cls = "plain-short";
            s   = sign + digits(r, r.range(1, 6), true);
            if (r.chance(1, 2)) s += "." + digits(r, r.range(1, 4), false);
            if (r.chance(1, 4)) s += "e" + std::to_string(int(r.below(40)) - 20);
            return s;
        }
    }
}

template <typename Char_T>
static void c09_one(const std::string &num, const char *cls, bool malformed, vf::Rng &r) {
    // the numeral is followed by 0 or 1 terminator unit to observe "consumes exactly the numeral"
    static const char   terms[] = {',', ']', '}', ' ', '\n'};
    std::string         text    = num;
    bool                with_term = !malformed && r.chance(1, 3);
    if (with_term) text += terms[r.below(5)];
    std::vector<Char_T> w(text.begin(), text.end());
    if (sizeof(Char_T) > 1 && !with_term && r.chance(1, 3)) {
        // wide builds: the unit after the numeral is not ASCII but its low byte is a digit, a point, an 'e' or a sign
        static const unsigned wide[] = {0x0430, 0x0139, 0x4E35, 0x012E, 0x0165, 0x0145, 0x012B, 0x012D, 0xFF10, 0x0660};
        unsigned              u      = wide[r.below(10)];
        if (sizeof(Char_T) == 4 && r.chance(1, 3)) u += 0x10000;
        w.push_back(Char_T(u));
        text += "<wide unit>";
        vf::count("c09_wide_followers");
    }
    vf::ExactBuf<Char_T> buf(w.data(), w.size());
    QNumber64            n;
    n.Natural       = 0;
    SizeT       off = 0;
    if (vf::g_verbose) fprintf(stderr, "TRACE c09 text=%s unit=%zu\n", text.c_str(), sizeof(Char_T));
    QNumberType t   = Digit::StringToNumber(n, buf.p, off, SizeT(buf.n));
    vf::count(std::string("c09_class_") + cls);
    std::string k = std::string("c09:") + cls + ":";
    if (malformed) {
        if (t != QNumberType::NotANumber) {
            vf::fail((k + "malformed-accepted").c_str(), "numeral=%s kind=%d bits=%016" PRIx64, num.c_str(), int(t),
                     uint64_t(n.Natural));
        }
        return;
    }
    Expect09 e = classify(num);
    if (e.kind == Expect09::Overflow) {
        bool ok = (t == QNumberType::NotANumber) || (t == QNumberType::Real && (std::isinf(n.Real) || std::isnan(n.Real)));
        if (!ok && t == QNumberType::Real && std::fabs(n.Real) == std::numeric_limits<double>::max() &&
            std::signbit(n.Real) == std::signbit(e.real) && fabsl(strtold(num.c_str(), nullptr)) <= 0x1p1024L) {
            // within one ulp of the (unbounded-exponent) correctly rounded value: allowed by "within one ulp"
            ok = true;
            vf::count("c09_one_ulp_off");
        }
        if (!ok) {
            vf::fail((k + "overflow-gives-finite").c_str(), "numeral=%s kind=%d value=%.17g", num.c_str(), int(t),
                     t == QNumberType::Real ? n.Real : double(n.Natural));
        }
        return;
    }
    if (t == QNumberType::NotANumber) {
        vf::fail((k + "valid-rejected").c_str(), "numeral=%s rejected", num.c_str());
        return;
    }
    if (off != num.size()) {
        vf::fail((k + "consumed-length").c_str(), "numeral=%s consumed=%u expected=%zu", text.c_str(), unsigned(off),
                 num.size());
        return;
    }
    switch (e.kind) {
        case Expect09::Natural:
            if (t != QNumberType::Natural || n.Natural != e.nat)
                vf::fail((k + "unsigned-integer").c_str(), "numeral=%s kind=%d got=%" PRIu64 " real=%.17g", num.c_str(),
                         int(t), uint64_t(n.Natural), n.Real);
            break;
        case Expect09::Integer:
            if (t != QNumberType::Integer || n.Integer != e.intg)
                vf::fail((k + "signed-integer").c_str(), "numeral=%s kind=%d got=%" PRId64 " real=%.17g", num.c_str(),
                         int(t), int64_t(n.Integer), n.Real);
            break;
        default: {
            if (t != QNumberType::Real) {
                vf::fail((k + "real-kind").c_str(), "numeral=%s expected real %.17g got kind=%d", num.c_str(), e.real, int(t));
                break;
            }
            if (std::signbit(n.Real) != std::signbit(e.real)) {
                vf::fail((k + "sign").c_str(), "numeral=%s expected %.17g got %.17g", num.c_str(), e.real, n.Real);
                break;
            }
            if (std::isnan(n.Real) || std::isinf(n.Real)) {
                vf::fail((k + "nonfinite").c_str(), "numeral=%s expected %.17g got %.17g", num.c_str(), e.real, n.Real);
                break;
            }
            int64_t d = ulp_distance(n.Real, e.real);
            if (d > 1) {
                vf::fail((k + "more-than-1ulp").c_str(), "numeral=%s expected %.17g (%016" PRIx64 ") got %.17g (%016" PRIx64 ") ulps=%" PRId64,
                         num.c_str(), e.real, dbits(e.real), n.Real, dbits(n.Real), d);
            } else if (d == 1) {
                vf::count("c09_one_ulp_off");
            } else {
                vf::count("c09_exact");
            }
        }
    }
}

static void run_c09(uint64_t c) {
    vf::Rng r(vf::g_seed, c);
    for (int i = 0; i < 256; ++i) {
        const char *cls;
        bool        mal;
        std::string s = gen_numeral(r, uint64_t(i), cls, mal);
        if (s.size() > 3000) s.resize(3000);
        switch (i & 7) {
            case 0: c09_one<char16_t>(s, cls, mal, r); break;
            case 1: c09_one<char32_t>(s, cls, mal, r); break;
            default: c09_one<char>(s, cls, mal, r);
        }
        vf::distinct(vf::fnv(s.data(), s.size()));
        vf::count("c09_numerals");
        if (i == int(c % 12) && vf::want_sample()) vf::sample("numeral[%s] %s", cls, s.substr(0, 200).c_str());
    }
}

// ------------------------------------------------------------------ C10
static std::string ref_format(double d, unsigned p, Digit::RealFormatType t) {
    char buf[2048];
    if (t == Digit::RealFormatType::Default) {
        snprintf(buf, sizeof(buf), "%.*g", int(p), d);
        return buf;
    }
    snprintf(buf, sizeof(buf), "%.*f", int(p), d);
    std::string s = buf;
    if (t == Digit::RealFormatType::SemiFixed && s.find('.') != std::string::npos && s.find_first_of("in") == std::string::npos) {
        size_t e = s.size();
        while (e > 0 && s[e - 1] == '0') --e;
        if (e > 0 && s[e - 1] == '.') --e;
        s.resize(e);
    }
    return s;
}

// ---- mismatch classification (so that a recorded defect class never hides a different defect) ----
struct Dec {
    bool        ok = false, neg = false;
    std::string digits; // no leading zeros (empty for zero)
    int         scale = 0; // value = digits * 10^scale
};
static Dec parse_dec(const std::string &t) {
    Dec    d;
    size_t i = 0;
    if (i < t.size() && (t[i] == '-' || t[i] == '+')) d.neg = t[i++] == '-';
    std::string ds;
    int         frac = 0;
    bool        dot = false, any = false;
    for (; i < t.size(); ++i) {
        char ch = t[i];
        if (ch >= '0' && ch <= '9') {
            ds += ch;
            any = true;
            if (dot) ++frac;
        } else if (ch == '.' && !dot) {
            dot = true;
        } else {
            break;
        }
    }
    int e = 0;
    if (i < t.size()) {
        if (t[i] != 'e' && t[i] != 'E') return d;
        char *endp = nullptr;
        e          = int(strtol(t.c_str() + i + 1, &endp, 10));
        if (endp == nullptr || *endp != 0) return d;
    }
    if (!any) return d;
    size_t z = 0;
    while (z < ds.size() && ds[z] == '0') ++z;
    d.digits = ds.substr(z);
    d.scale  = e - frac;
    d.ok     = true;
    return d;
}
// |a - b| expressed in units of 10^unit_scale; returns -1 when it is not an integer number of units or is huge
static long dec_diff_units(Dec a, Dec b, int unit_scale, int &cmp) {
    int lo = std::min(std::min(a.scale, b.scale), unit_scale);
    if (a.scale - lo > 2000 || b.scale - lo > 2000) return -1;
    a.digits += std::string(size_t(a.scale - lo), '0');
    b.digits += std::string(size_t(b.scale - lo), '0');
    size_t n = std::max(a.digits.size(), b.digits.size());
    a.digits = std::string(n - a.digits.size(), '0') + a.digits;
    b.digits = std::string(n - b.digits.size(), '0') + b.digits;
    cmp      = a.digits < b.digits ? -1 : (a.digits > b.digits ? 1 : 0);
    if (cmp < 0) std::swap(a, b);
    std::string diff(n, '0');
    int         borrow = 0;
    for (size_t j = n; j-- > 0;) {
        int v  = (a.digits[j] - '0') - (b.digits[j] - '0') - borrow;
        borrow = v < 0;
        if (v < 0) v += 10;
        diff[j] = char('0' + v);
    }
    size_t zeros = size_t(unit_scale - lo);
    if (zeros > n) return -1;
    for (size_t j = n - zeros; j < n; ++j) {
        if (diff[j] != '0') return -1;
    }
    std::string q = diff.substr(0, n - zeros);
    size_t      z = 0;
    while (z < q.size() && q[z] == '0') ++z;
    q = q.substr(z);
    if (q.size() > 6) return -1;
    return q.empty() ? 0 : atol(q.c_str());
}

static std::string c10_class(double d, unsigned p, Digit::RealFormatType t, const std::string &got, const std::string &exp, bool is_float = false) {
    const char *f = t == Digit::RealFormatType::Default ? "default" : (t == Digit::RealFormatType::Fixed ? "fixed" : "semifixed");
    std::string k = std::string("c10:") + f + ":";
    if (t != Digit::RealFormatType::Default && p == 0) {
        std::string g = got, x = exp;
        if (!g.empty() && g[0] == '-') g = g.substr(1);
        if (!x.empty() && x[0] == '-') x = x.substr(1);
        if (g.empty() && x == "1" && std::fabs(d) >= 0.5 && std::fabs(d) < 1.0) return k + "precision0-half-to-one-prints-nothing";
    }
    Dec g = parse_dec(got), x = parse_dec(exp);
    if (!g.ok || !x.ok || g.neg != x.neg) return k + "other";
    // the scale of the last requested digit
    int unit;
    if (t == Digit::RealFormatType::Default) {
        char buf[64];
        snprintf(buf, sizeof(buf), "%.*e", int((p == 0 ? 1 : p) - 1), d);
        const char *e = strchr(buf, 'e');
        unit          = atoi(e + 1) - int((p == 0 ? 1 : p) - 1);
    } else {
        unit = -int(p);
    }
    int  cmp = 0;
    long u   = dec_diff_units(g, x, unit, cmp);
    if (u != 1) return k + "other";
    // exact expansion of |d|: digit at scale unit-1 and whether anything non-zero lies below it
    char big[1400];
    snprintf(big, sizeof(big), "%.1150e", std::fabs(d));
    Dec ex = parse_dec(big);
    if (!ex.ok) return k + "other";
    // position of scale (unit-1) inside ex.digits
    long idx = long(ex.digits.size()) - 1 - (long(unit - 1) - long(ex.scale));
    if (idx < 0 || idx >= long(ex.digits.size())) return k + "other";
    char cut  = ex.digits[size_t(idx)];
    bool rest = ex.digits.find_first_not_of('0', size_t(idx) + 1) != std::string::npos;
    if (cut > '5' && cmp < 0) {
        // the digit after the cut is 6..9 and the last kept digit was not raised: truncated, not rounded
        const bool sub = is_float ? (((fbits(float(d)) >> 23) & 0xFF) == 0) : (((dbits(d) >> 52) & 0x7FF) == 0);
        return k + (sub ? "last-digit-truncated-not-rounded:subnormal" : "last-digit-truncated-not-rounded");
    }
    if (cut != '5') return k + "other";
    if (rest) {
        if (cmp >= 0) return k + "other";
        // subnormal inputs are a separate (recorded) root cause: the scaled big integer is truncated mid-way
        // (subnormal in the type that was passed: the float overload runs the same code on the float's own fields)
        const bool subnormal = is_float ? (((fbits(float(d)) >> 23) & 0xFF) == 0) : (((dbits(d) >> 52) & 0x7FF) == 0);
        return k + (subnormal ? "round-half-sticky-lost-rounds-down:subnormal" : "round-half-sticky-lost-rounds-down");
    }
    return k + (cmp > 0 ? "exact-tie-rounds-away-from-even" : "exact-tie-rounds-down-to-odd");
}

template <typename Char_T>
static void c10_real(double d, unsigned p, Digit::RealFormatType t, bool is_float, vf::Rng *r) {
    StringStream<Char_T> st;
    std::string          prefix;
    if (r != nullptr && r->chance(1, 2)) {
        unsigned n = r->range(1, 40);
        for (unsigned i = 0; i < n; ++i) {
            char ch = char('!' + r->below(90));
            prefix += ch;
            st += Char_T(ch);
        }
    }
    if (vf::g_verbose) fprintf(stderr, "TRACE c10 value=%.17g bits=%016" PRIx64 " float=%d precision=%u format=%d prefix_len=%zu unit=%zu\n", d, dbits(d), int(is_float), p, int(t), prefix.size(), sizeof(Char_T));
    std::string all;
    if (r != nullptr && r->chance(1, 5)) {
        // a String as the destination (the library's own tests write numbers into one): same text expected
        String<Char_T> ds;
        for (char ch : prefix) ds += Char_T(ch);
        if (is_float) Digit::NumberToString(ds, float(d), Digit::RealFormatInfo{p, t});
        else Digit::NumberToString(ds, d, Digit::RealFormatInfo{p, t});
        all = narrow(ds.First(), ds.Length());
        vf::count("c10_string_destinations");
    } else {
        if (is_float) {
            Digit::NumberToString(st, float(d), Digit::RealFormatInfo{p, t});
        } else {
            Digit::NumberToString(st, d, Digit::RealFormatInfo{p, t});
        }
        all = narrow(st.First(), st.Length());
    }
    vf::count("c10_reals");
    if (all.compare(0, prefix.size(), prefix) != 0 || all.size() < prefix.size()) {
        vf::fail("c10:stream-prefix-disturbed", "value=%.17g p=%u prefix=%s stream=%s", d, p, prefix.c_str(), all.c_str());
        return;
    }
    std::string got = all.substr(prefix.size());
    std::string exp = ref_format(is_float ? double(float(d)) : d, p, t);
    if (got != exp) {
        std::string k = c10_class(d, p, t, got, exp, is_float);
        if (is_float) k += ":float";
        vf::fail(k.c_str(), "value=%.17g bits=%016" PRIx64 " precision=%u format=%d got=%s expected=%s", d, dbits(d), p, int(t),
                 got.c_str(), exp.c_str());
    }
}

template <typename Char_T, typename Int_T>
static void c10_int(Int_T v) {
    StringStream<Char_T> st;
    st += Char_T('#');
    Digit::NumberToString(st, v);
    char buf[64];
    if (std::is_signed<Int_T>::value) snprintf(buf, sizeof(buf), "#%lld", (long long)v);
    else snprintf(buf, sizeof(buf), "#%llu", (unsigned long long)v);
    std::string got = narrow(st.First(), st.Length());
    vf::count("c10_ints");
    if (got != buf) {
        vf::fail((std::string("c10:integer:") + (std::is_signed<Int_T>::value ? "s" : "u") + std::to_string(sizeof(Int_T) * 8)).c_str(),
                 "got=%s expected=%s", got.c_str(), buf);
    }
}

static void run_c10(uint64_t c, unsigned maxp) {
    vf::Rng r(vf::g_seed, c);
    for (int i = 0; i < 1024; ++i) {
        double   d = gen_double(r, uint64_t(i) + c);
        unsigned p = r.chance(1, 8) ? r.below(maxp + 1) : r.below(20);
        Digit::RealFormatType t = Digit::RealFormatType(r.below(3));
        bool     fl = r.chance(1, 6);
        if (fl) {
            float f = float(d);
            if (std::isinf(f)) f = 3.4e38f;
            if (r.chance(1, 8)) f = bfloat(uint32_t(r.below(0x00800000)) | (uint32_t(r.below(2)) << 31)); // float subnormals
            d = double(f);
        }
        switch (i & 7) {
            case 0: c10_real<char16_t>(d, p, t, fl, &r); break;
            case 1: c10_real<char32_t>(d, p, t, fl, &r); break;
            default: c10_real<char>(d, p, t, fl, &r);
        }
        vf::distinct(vf::mix(dbits(d)) ^ (uint64_t(p) << 8) ^ uint64_t(t));
        vf::g_counters[std::string("c10_fmt") + std::to_string(int(t)) + "_p" + (p < 10 ? "0" : "") + std::to_string(p)] += 1;
        if (i == 3 && vf::want_sample()) {
            vf::sample("value=%.17g precision=%u format=%d -> expected \"%s\"", d, p, int(t), ref_format(d, p, t).c_str());
        }
    }
    // non-finite
    {
        double inf = std::numeric_limits<double>::infinity();
        for (unsigned t = 0; t < 3; ++t) {
            c10_real<char>(inf, r.below(20), Digit::RealFormatType(t), false, &r);
            c10_real<char>(-inf, r.below(20), Digit::RealFormatType(t), false, &r);
            c10_real<char16_t>(std::numeric_limits<double>::quiet_NaN(), r.below(20), Digit::RealFormatType(t), false, &r);
        }
    }
    // integers: random + boundaries of every width
    for (int i = 0; i < 64; ++i) {
        uint64_t x = r.next() >> r.below(64);
        c10_int<char, unsigned long long>(x);
        c10_int<char16_t, long long>((long long)x);
        c10_int<char, long long>(-(long long)(x >> 1));
        c10_int<char32_t, unsigned int>((unsigned int)x);
        c10_int<char, int>((int)x);
        c10_int<char, unsigned short>((unsigned short)x);
        c10_int<char, short>((short)x);
        c10_int<char, unsigned char>((unsigned char)x);
        c10_int<char, signed char>((signed char)x);
    }
    c10_int<char, long long>(std::numeric_limits<long long>::min());
    c10_int<char, long long>(std::numeric_limits<long long>::max());
    c10_int<char, unsigned long long>(std::numeric_limits<unsigned long long>::max());
    c10_int<char, int>(std::numeric_limits<int>::min());
    c10_int<char, short>(std::numeric_limits<short>::min());
    c10_int<char, signed char>(std::numeric_limits<signed char>::min());
    c10_int<char, long long>(0);
    if (c < 256) { // exhaustive 8 and 16 bit, spread over the first 256 cases
        for (unsigned v = unsigned(c) * 256; v < unsigned(c) * 256 + 256; ++v) {
            c10_int<char, unsigned short>((unsigned short)v);
            c10_int<char, short>((short)v);
            c10_int<char, unsigned char>((unsigned char)v);
            c10_int<char, signed char>((signed char)v);
        }
        vf::count("c10_int16_blocks_exhaustive");
    }
}

static void run_c10f(uint64_t c) {
    uint32_t base = uint32_t(c) << 16;
    for (uint32_t i = 0; i < 65536; ++i) {
        uint32_t b = base + i;
        if (((b >> 23) & 0xFF) == 0xFF) continue;
        float f = bfloat(b);
        c10_real<char>(double(f), 6, Digit::RealFormatType::Default, true, nullptr);
        c10_real<char>(double(f), 9, Digit::RealFormatType::Default, true, nullptr);
        c10_real<char>(double(f), 2, Digit::RealFormatType::Fixed, true, nullptr);
    }
    vf::distinct(c);
    if (vf::want_sample() && (c % 9000) == 17) vf::sample("float block %08x..%08x x {%%.6g,%%.9g,%%.2f}", base, base + 65535);
}

int main(int argc, char **argv) {
    vf::Args    a    = vf::parse_args(argc, argv);
    std::string mode = a.opts("mode", "c11");
    unsigned    maxp = unsigned(a.optl("maxp", 40));
    for (uint64_t c = a.from; c < a.to; ++c) {
        vf::begin_case(c);
        if (mode == "c11") run_c11(c);
        else if (mode == "c11f") run_c11f(c);
        else if (mode == "c09") run_c09(c);
        else if (mode == "c10") run_c10(c, maxp);
        else if (mode == "c10f") run_c10f(c);
        else {
            fprintf(stderr, "bad mode\n");
            return 2;
        }
        vf::end_case();
    }
    return vf::finish(a);
}
