// C01: rendering any template text with any value is memory-safe and terminates (also the C16 template workload).
//   --opt mode=c01     case = one generated template + prefixes + mutations + soups, rendered against pool values
//   --opt mode=narrow  case = one template of the narrow-field family (8/16-bit offsets, deep nesting)
//   --opt mode=c16     case = tag-cache lifetimes (parse, copy, move, clear, reuse, render-after-copy) on generated text
#ifndef VF_CHAR
#define VF_CHAR char
#endif
#include "tmplgen.hpp"

using namespace Qentem;
using C  = VF_CHAR;
using V  = Value<C>;
using SS = StringStream<C>;

static tg::Pool<C> *g_pool = nullptr;
static uint64_t     g_out_units = 0;

static void render_one(const std::string &text, const V &value, unsigned placement, bool cached, bool prefilled) {
    std::basic_string<C> w = vm::widen<C>(text);
    if (vf::g_verbose) fprintf(stderr, "TRACE render placement=%u cached=%d len=%zu hex=%s\n", placement, int(cached), text.size(), vf::hex(text.data(), text.size(), 6000).c_str());
    SS out;
    if (prefilled) out << C('#') << C('#');
    try {
        if (placement == 0) {
            vf::ExactBuf<C> b(w.data(), w.size());
            if (cached) {
                Array<Tags::TagBit> cache;
                Template::Render((const C *)b.p, SizeT(b.n), value, out, cache);
                Template::Render((const C *)b.p, SizeT(b.n), value, out, cache); // second render through the cache
            } else {
                Template::Render((const C *)b.p, SizeT(b.n), value, out);
            }
        } else {
            vf::GuardBuf<C> b(w.data(), w.size(), placement == 1);
            b.make_readonly();
            Template::Render((const C *)b.p, SizeT(b.n), value, out);
        }
    } catch (...) {
        vf::fail("c01:exception-escaped", "text=%s", vf::show(text.data(), text.size(), 300).c_str());
    }
    if (prefilled && (out.Length() < 2 || out.First()[0] != C('#') || out.First()[1] != C('#'))) vf::fail("c01:stream-prefix-disturbed", "text=%s", vf::show(text.data(), text.size(), 300).c_str());
    g_out_units += out.Length();
    vf::count("renders");
    // parse shape: tag kinds at top level
    if (vf::g_counters["cases"] < 400 || (vf::g_counters["renders"] & 7) == 0) {
        Array<Tags::TagBit> tags;
        TemplateCore<C, V, SS>::Parse(w.data(), SizeT(w.size()), tags);
        uint64_t h = 1469598103934665603ULL;
        for (const Tags::TagBit &t : tags) {
            h = (h ^ uint64_t(t.GetType())) * 1099511628211ULL;
            vf::g_counters[std::string("tagkind_") + std::to_string(int(t.GetType()))] += 1;
        }
        if (tags.Size() != 0) {
            vf::distinct(h ^ (uint64_t(tags.Size()) << 48));
            vf::count("renders_with_tags");
        } else if (text.find('{') != std::string::npos || text.find('<') != std::string::npos) {
            vf::distinct(vf::fnv(text.data(), text.size()));
        }
    }
}

static const V &pick_value(vf::Rng &r) {
    return g_pool->v[r.below(uint32_t(g_pool->v.size()))];
}

static void run_c01(uint64_t c) {
    vf::Rng r(vf::g_seed, c);
    tg::G   g(r);
    std::string t = g.body(2 + r.below(3));
    if (t.size() > 4096) t.resize(4096);
    uint64_t salt = c;
    if (vf::want_sample() && (c % 7) == 0) vf::sample("template: %s", vf::show(t.data(), t.size(), 400).c_str());
    // well-formed against several values
    for (int i = 0; i < 4; ++i) render_one(t, i == 0 ? g_pool->v[0] : pick_value(r), unsigned(salt++ % 4 == 3 ? 1 + r.below(2) : 0), i == 1, i == 2);
    vf::count("wellformed_templates");
    // prefixes
    {
        unsigned n = t.size() <= 48 ? unsigned(t.size()) : 40;
        for (unsigned i = 0; i < n; ++i) {
            size_t k = t.size() <= 48 ? i : r.below(uint32_t(t.size()));
            render_one(t.substr(0, k), r.chance(1, 2) ? g_pool->v[0] : pick_value(r), unsigned(salt++ % 4 == 3 ? 1 : 0), false, false);
            vf::count("prefix_renders");
        }
    }
    // mutations
    for (int i = 0; i < 40; ++i) {
        render_one(tg::mutate(r, t), r.chance(1, 2) ? g_pool->v[0] : pick_value(r), unsigned(salt++ % 4 == 3 ? 1 + r.below(2) : 0), (i & 7) == 1, false);
        vf::count("mutation_renders");
    }
    // token soups
    for (int i = 0; i < 10; ++i) {
        render_one(tg::soup(r), r.chance(1, 2) ? g_pool->v[0] : pick_value(r), unsigned(salt++ % 4 == 3 ? 2 : 0), false, false);
        vf::count("soup_renders");
    }
    // hostile seeds appended to a prefix
    {
        static const char *seeds[] = {"<if><if><loop>", "{math:<else", "{math:1%0}", "{math:5 % {var:zero}}", "{math:1/0}", "<if case=\"1\"><else if", "<loop value=\"v\"></loop>",
                                      "<loop set=\"list\" value=\"v\"><loop set=\"v\" value=\"w\">{var:w}{var:v}</loop>", "{if case=\"1\" true=\"{var:a}", "{svar:ph, {var:a}",
                                      "<if case='{var:a}'>x<else>y<else>z</if>", "</loop>", "</if>", "<else />", "{var:}", "{var:[0]}", "{var:list[}", "{var:list[0}", "{math:(}", "{math:)}",
                                      "{math:((1)}", "{math:{var:a}^{var:neg}}", "{math:0^0 % 0}", "{if case=\"{var:a\" true=\"x\"}", "<loop set=\"recs\" value=\"v\" group=\"y\" sort=\"ascend\">{var:v}</loop>",
                                      "<loop value=\"v\" sort=\"x\">", "<if case=\"", "<if case=\"1\"", "<if case=\"1\">", "{if case", "{if case=", "{if case=\"", "{svar:", "{svar:a", "{svar:a,", "{math:", "{math:1+", "{math:1==", "{math:=",
                                      "{math:1e30 % -1}", "{math:-9223372036854775808.0 % -1}", "{math:1e30 % -1.5}", "{math:{var:big} % {var:neg}}", "{math:-9223372036854775808 % -1}",
                                      "{math:-9223372036854775808 / -1}", "{math:1e308 * 10 % 3}", "{math:9223372036854775807 + 1 % -1}", "{math:2 ^ 64 % -1}", "<if case=\"1e30 % -1 == 0\">x</if>",
                                      "{math:!}", "{math:&}", "{math:|}", "{math:>}", "{math:<}", "{math:-}", "{math:+}", "{math:1-}", "{math:{var:a}-}", "{math:-{var:a}}", "{math: }"};
        const size_t       ns      = sizeof(seeds) / sizeof(seeds[0]);
        for (int i = 0; i < 8; ++i) {
            std::string s = seeds[(c * 8 + uint64_t(i)) % ns];
            render_one(s, g_pool->v[0], 0, false, false);
            render_one(t.substr(0, r.below(uint32_t(t.size()) + 1)) + s, pick_value(r), unsigned(salt++ % 4 == 3 ? 1 : 0), false, false);
            vf::count("seed_renders", 2);
        }
    }
}

static void run_narrow(uint64_t c) {
    vf::Rng     r(vf::g_seed, c);
    std::string t = tg::narrow(r, c);
    if (vf::want_sample()) vf::sample("narrow-field family %u, %zu units: %s...", unsigned(c % 12), t.size(), t.substr(0, 60).c_str());
    render_one(t, g_pool->v[0], 0, false, false);
    render_one(t, g_pool->v[0], 1, false, false);
    render_one(t, pick_value(r), 0, true, false);
    // truncated just before the end
    render_one(t.substr(0, t.size() - 1 - r.below(8)), g_pool->v[0], 0, false, false);
    vf::count("narrow_templates");
}

static void run_c16(uint64_t c) {
    vf::Rng     r(vf::g_seed, c);
    tg::G       g(r);
    std::string t = r.chance(1, 3) ? tg::mutate(r, g.body(3)) : g.body(3);
    if (r.chance(1, 4)) t.resize(r.below(uint32_t(t.size()) + 1)); // unfinished tags are dropped at end of input
    std::basic_string<C> w = vm::widen<C>(t);
    if (vf::g_verbose) fprintf(stderr, "TRACE c16 text hex=%s\n", vf::hex(t.data(), t.size(), 6000).c_str());
    const V &v = r.chance(1, 2) ? g_pool->v[0] : pick_value(r);
    {
        Array<Tags::TagBit> cache;
        TemplateCore<C, V, SS>::Parse(w.data(), SizeT(w.size()), cache);
        SS                     o1, o2, o3, o4;
        TemplateCore<C, V, SS> t1{w.data(), SizeT(w.size())};
        t1.Render(cache, v, o1);
        Array<Tags::TagBit> copy(cache); // deep copy of the tag tree
        t1.Render(copy, v, o2);
        Array<Tags::TagBit> moved(Memory::Move(copy));
        t1.Render(moved, v, o3);
        Array<Tags::TagBit> assigned;
        assigned = cache;
        assigned = moved; // overwrite a non-empty cache
        assigned = Memory::Move(moved);
        t1.Render(assigned, v, o4);
        if (!(o1 == o2) || !(o1 == o3) || !(o1 == o4)) vf::fail("c16:cache-copy-renders-differently", "text=%s", vf::show(t.data(), t.size(), 300).c_str());
        cache.Clear();
        Template::Render(w.data(), SizeT(w.size()), v, o2, cache); // reuse the cleared cache object: re-parses
        cache.Reset();
        assigned += cache;
        vf::count("cache_lifetimes");
        vf::count("cache_tags", assigned.Size());
    }
    vf::distinct(vf::fnv(t.data(), t.size()));
}

int main(int argc, char **argv) {
    vf::Args    a    = vf::parse_args(argc, argv);
    std::string mode = a.opts("mode", "c01");
    {
        vf::ledger().enabled = false; // the pool lives for the whole process
        g_pool               = new tg::Pool<C>();
        vf::ledger().enabled = true;
    }
    for (uint64_t c = a.from; c < a.to; ++c) {
        vf::begin_case(c);
        if (mode == "c01") run_c01(c);
        else if (mode == "narrow") run_narrow(c);
        else if (mode == "c16") run_c16(c);
        else return 2;
        vf::end_case(true);
    }
    vf::count("output_units", g_out_units);
    return vf::finish(a);
}
