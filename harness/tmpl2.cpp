// C02: renders python-generated well-formed templates; the driver compares with the reference interpreter.
// Case fields: template text, value JSON. Output line: <index> <hex of the output units (low byte)>
#ifndef VF_CHAR
#define VF_CHAR char
#endif
#include "vmodel.hpp"

#include "Template.hpp"

using namespace Qentem;
using C  = VF_CHAR;
using V  = Value<C>;
using SS = StringStream<C>;

int main(int argc, char **argv) {
    vf::Args     a = vf::parse_args(argc, argv);
    vf::CaseFile cf(a.casefile);
    FILE        *out = fopen((a.outfile + "." + std::to_string(a.from)).c_str(), "w");
    if (!out) return 2;
    for (uint64_t c = a.from; c < a.to && c < cf.size(); ++c) {
        vf::begin_case(c);
        {
            std::string          tt = cf.str(c, 0), vt = cf.str(c, 1);
            std::basic_string<C> t = vm::widen<C>(tt), vj = vm::widen<C>(vt);
            if (vf::g_verbose) fprintf(stderr, "TRACE template=%s\nTRACE value=%s\n", tt.c_str(), vt.c_str());
            V               value = JSON::Parse(vj.data(), SizeT(vj.size()));
            // one case in four (object roots) is rendered through a view whose members are pointers to the members of the
            // parsed value (SetPointerToValue): a pointer member stands for the value it points to
            V view;
            if ((c & 3) == 2) {
                if (value.IsObject()) {
                    for (SizeT i = 0; i < value.Size(); ++i) {
                        const V         *m = value.GetValue(i);
                        const String<C> *k = value.GetKey(i);
                        if (m != nullptr && k != nullptr) view[*k].SetPointerToValue(m);
                    }
                    vf::count("pointer_view_renders");
                }
                // (array roots are left alone: whether pointer *elements* count as objects for group= is not documented)
            }
            const V        &root = view.IsUndefined() ? value : view;
            vf::ExactBuf<C> b(t.data(), t.size());
            SS              o;
            if ((c & 3) == 1) {
                // through a tag cache, rendered twice; the second output is the one compared
                Array<Tags::TagBit> cache;
                SS                  first;
                Template::Render((const C *)b.p, SizeT(b.n), root, first, cache);
                if ((c & 4) != 0) {
                    // ... from a copy of the cache (the parsed form is copyable: every tag keeps its kind and operands)
                    Array<Tags::TagBit> copy{cache};
                    Template::Render((const C *)b.p, SizeT(b.n), root, o, copy);
                    vf::count("renders_from_copied_cache");
                } else {
                    Template::Render((const C *)b.p, SizeT(b.n), root, o, cache);
                }
            } else {
                Template::Render((const C *)b.p, SizeT(b.n), root, o);
            }
            fprintf(out, "%" PRIu64 " ", c);
            if (o.Length() == 0) fputc('-', out);
            for (SizeT i = 0; i < o.Length(); ++i) fprintf(out, "%02x", unsigned(o.First()[i]) & 0xFFu);
            fputc('\n', out);
            vf::count("renders");
        }
        vf::end_case(true);
    }
    fclose(out);
    return vf::finish(a);
}
