// C05 (memory safety of JSON::Parse on arbitrary input) and C07 (all-or-nothing).
//   --opt mode=c05   a case = one generated document + prefixes + mutations + hostile seeds, every unit width
//   --opt mode=deep  a case = nesting depth family (arrays / objects / mixed), open and closed
//   --opt mode=c07   a case = one valid container document: all prefixes, suffixes, bracket swaps/removals
#include "common.hpp"
#include "jsongen.hpp"

#include "JSON.hpp"

using namespace Qentem;

static uint64_t g_nodes = 0;

template <typename Char_T>
static void walk(const Value<Char_T> &v, unsigned depth) {
    ++g_nodes;
    if (v.IsObject() || v.IsArray()) {
        const SizeT n = v.Size();
        for (SizeT i = 0; i < n; ++i) {
            const Value<Char_T> *c = v.GetValue(i);
            if (v.IsObject()) {
                const String<Char_T> *k = v.GetKey(i);
                if (k != nullptr) {
                    volatile Char_T sink = 0;
                    for (SizeT j = 0; j < k->Length(); ++j) sink = k->First()[j];
                    (void)sink;
                }
            }
            if (c != nullptr) walk(*c, depth + 1);
        }
    } else if (v.IsString()) {
        const Char_T *s;
        SizeT         n;
        v.SetCharAndLength(s, n);
        volatile Char_T sink = 0;
        for (SizeT j = 0; j < n; ++j) sink = s[j];
        (void)sink;
    }
}

template <typename Char_T>
static bool parse_once(const std::string &bytes, unsigned placement, bool must_reject, const char *failkey, const char *what) {
    std::vector<Char_T> w(bytes.size());
    for (size_t i = 0; i < bytes.size(); ++i) w[i] = Char_T((unsigned char)bytes[i]);
    if (vf::g_verbose) fprintf(stderr, "TRACE parse unit=%zu placement=%u len=%zu hex=%s\n", sizeof(Char_T), placement, bytes.size(), vf::hex(bytes.data(), bytes.size(), 3000).c_str());
    bool undefined;
    if (placement == 9) {
        // C07 placement: the text sits inside a larger live buffer whose following units would complete the
        // document if the parser read past the given length ("]}" and quotes, then NULs).
        std::vector<Char_T> padded(w);
        static const char   pad[] = "\"]}]}]}\"]]}}";
        for (const char *q = pad; *q; ++q) padded.push_back(Char_T(*q));
        for (int i = 0; i < 8; ++i) padded.push_back(Char_T(0));
        Value<Char_T> v = JSON::Parse(padded.data(), SizeT(w.size()));
        undefined       = v.IsUndefined();
    } else if (placement == 0) {
        vf::ExactBuf<Char_T> b(w.data(), w.size());
        Value<Char_T>        v = JSON::Parse(b.p, SizeT(b.n));
        undefined              = v.IsUndefined();
        if (!undefined) {
            walk(v, 0);
            StringStream<Char_T> st;
            v.Stringify(st);
        }
    } else {
        vf::GuardBuf<Char_T> b(w.data(), w.size(), placement == 1);
        b.make_readonly();
        Value<Char_T> v = JSON::Parse(b.p, SizeT(b.n));
        undefined       = v.IsUndefined();
        if (!undefined) {
            walk(v, 0);
            StringStream<Char_T> st;
            v.Stringify(st);
        }
    }
    vf::count("parses");
    vf::count(undefined ? "rejected" : "accepted");
    if (must_reject && !undefined) {
        vf::fail(failkey, "%s: accepted input (unit=%zu) text=%s", what, sizeof(Char_T), vf::show(bytes.data(), bytes.size(), 600).c_str());
        return false;
    }
    return true;
}

static void parse_all_units(const std::string &s, vf::Rng &r, uint64_t salt) {
    unsigned pl = (salt & 3) == 3 ? 1 + unsigned(r.below(2)) : 0;
    switch ((salt >> 2) & 3) {
        case 0: parse_once<char>(s, pl, false, "", ""); break;
        case 1: parse_once<char16_t>(s, pl, false, "", ""); break;
        case 2: parse_once<char32_t>(s, pl, false, "", ""); break;
        default: parse_once<wchar_t>(s, pl, false, "", "");
    }
}

static const char *const kSeeds[] = {
    "{\"abc", "[", "{", " ", "  \n", "{\"a\":", "\"\\", "\"\\u12", "\"\\uD83D\\u", "\"\\uD83D", "[\"\\", "[\"\\u", "[\"\\u1",
    "[\"\\uD83D\\uDE0", "{\"\\", "{\"a\\", "{\"a\":\"\\", "tru", "nul", "fals", "[tru", "[fals", "[nul", "t", "f", "n", "-", "[-", "[1e",
    "[1.", "[1e+", "{\"a\"", "{\"a\" ", "{\"a\":1,", "{\"a\":1, ", "[1,", "[1, ", "[1 ", "{\"a\":1 ", "[\"a\"", "[\"a", "{\"", "{\"a",
    "[[", "[{", "{\"a\":[", "{\"a\":{", "\"", "\"abc", "0", "-0", "1e5", "[0", "[0.", "[0e", "[-0", "[00", "[.", "[+", "[+1", "[0x", "[0x1", "[0X1F",
    "[\"\\x\"]", "[\"\\", "[\"a\\", "[\"\t\"]", "[\"\n\"]", ":", ",", "]", "}", "[,", "[,]", "{,}", "{:}", "{\"a\":}", "{\"a\",}", "[1,,2]",
};

static void run_c05(uint64_t c) {
    vf::Rng  r(vf::g_seed, c);
    jg::Opts op;
    op.max_depth = 2 + r.below(6);
    op.max_items = 1 + r.below(6);
    std::string d = jg::gen_doc(r, op);
    if (d.size() > 4096) d.resize(4096);
    uint64_t salt = c * 131;
    vf::distinct(vf::fnv(d.data(), d.size()));
    if (vf::want_sample() && (c % 5) == 0) vf::sample("base document: %s", vf::show(d.data(), d.size(), 300).c_str());
    // 1. the valid document in all four widths and all placements
    parse_once<char>(d, 0, false, "", "");
    parse_once<char16_t>(d, 1, false, "", "");
    parse_once<char32_t>(d, 2, false, "", "");
    parse_once<wchar_t>(d, 0, false, "", "");
    // 2. prefixes: all when short, otherwise 48 random cuts (always including 1..8 and the last 8)
    {
        std::vector<size_t> cuts;
        if (d.size() <= 64) {
            for (size_t k = 0; k < d.size(); ++k) cuts.push_back(k);
        } else {
            for (size_t k = 0; k < 8; ++k) {
                cuts.push_back(k);
                cuts.push_back(d.size() - 1 - k);
            }
            for (int i = 0; i < 32; ++i) cuts.push_back(r.below(uint32_t(d.size())));
        }
        for (size_t k : cuts) {
            parse_all_units(d.substr(0, k), r, salt++);
            vf::count("prefix_cuts");
        }
    }
    // 3. mutations
    static const char alphabet[] = "{}[]\":,\\/ \t\n\r0123456789.-+eEtrufalsn\0\0ubx";
    for (int i = 0; i < 40; ++i) {
        std::string m = d;
        unsigned    n = 1 + r.below(3);
        for (unsigned j = 0; j < n && !m.empty(); ++j) {
            size_t pos = r.below(uint32_t(m.size()));
            char   ch  = alphabet[r.below(sizeof(alphabet) - 1)];
            switch (r.below(5)) {
                case 0: m[pos] = ch; break;
                case 1: m.insert(pos, 1, ch); break;
                case 2: m.erase(pos, 1); break;
                case 3: m[pos] = char(r.below(256)); break;
                default: {
                    // splice a slice of the document somewhere else
                    size_t a = r.below(uint32_t(m.size())), b = r.below(uint32_t(m.size()));
                    if (a > b) std::swap(a, b);
                    m.insert(pos, m.substr(a, std::min<size_t>(b - a, 40)));
                }
            }
        }
        if (m.size() > 4096) m.resize(4096);
        parse_all_units(m, r, salt++);
        vf::count("mutations");
    }
    // 4. NUL after keyword prefixes / inside keywords, keyword followed by NULs
    {
        static const char *kw[] = {"true", "false", "null"};
        for (int i = 0; i < 6; ++i) {
            std::string k   = kw[r.below(3)];
            std::string doc = "[";
            size_t      cut = r.range(1, unsigned(k.size()));
            doc += k.substr(0, cut);
            unsigned nul = r.below(8);
            doc += std::string(nul, '\0');
            if (r.chance(1, 2)) doc += k.substr(cut);
            if (r.chance(1, 2)) doc += "]";
            parse_all_units(doc, r, salt++);
            // bare, without the bracket
            parse_all_units(k.substr(0, cut) + std::string(nul, '\0'), r, salt++);
            vf::count("keyword_nul_inputs");
        }
    }
    // 5. hostile seeds (rotating), alone and appended to a prefix of the document
    {
        const size_t ns = sizeof(kSeeds) / sizeof(kSeeds[0]);
        for (int i = 0; i < 10; ++i) {
            std::string s = kSeeds[(c * 10 + uint64_t(i)) % ns];
            parse_all_units(s, r, salt++);
            std::string t = d.substr(0, r.below(uint32_t(d.size()))) + s;
            parse_all_units(t, r, salt++);
            vf::count("seed_inputs", 2);
        }
    }
    // 6. random bytes / random token soup
    for (int i = 0; i < 6; ++i) {
        std::string s;
        unsigned    n = r.range(1, 40);
        for (unsigned j = 0; j < n; ++j) {
            if (r.chance(1, 3)) s += char(r.below(256));
            else s += alphabet[r.below(sizeof(alphabet) - 1)];
        }
        parse_all_units(s, r, salt++);
        vf::count("soup_inputs");
    }
}

static void run_deep(uint64_t c) {
    // depth = 1..1024 spread over cases; family by c % 6
    vf::Rng  r(vf::g_seed, c);
    unsigned depth = 1 + unsigned((c * 37) % 1024);
    if ((c % 16) == 0) depth = 512 + unsigned(c % 3) - 1;
    if ((c % 16) == 1) depth = 1024;
    std::string open_, close_;
    for (unsigned i = 0; i < depth; ++i) {
        switch (c % 3) {
            case 0:
                open_ += "[";
                close_ = "]" + close_;
                break;
            case 1:
                open_ += "{\"a\":";
                close_ = "}" + close_;
                break;
            default:
                if (i & 1) {
                    open_ += "{\"k\":";
                    close_ = "}" + close_;
                } else {
                    open_ += "[";
                    close_ = "]" + close_;
                }
        }
    }
    std::string inner = (c % 2) ? "1" : "\"x\"";
    vf::count_max("max_depth", depth);
    vf::distinct(c);
    if (vf::want_sample()) vf::sample("nesting depth %u, family %u: %s...", depth, unsigned(c % 3), open_.substr(0, 30).c_str());
    std::string full = open_ + inner + close_;
    parse_once<char>(full, 0, false, "", "");
    parse_once<char16_t>(full, 0, false, "", "");
    parse_once<char32_t>(open_ + inner, 0, false, "", ""); // unclosed
    parse_once<char>(open_, 0, false, "", "");             // nothing inside
    parse_once<char>(open_ + inner + close_.substr(0, close_.size() / 2), 1, false, "", "");
    // the closed document must be accepted (the statement promises 512 levels)
    if (depth <= 512) {
        std::vector<char> w(full.begin(), full.end());
        Value<char>       v = JSON::Parse(w.data(), SizeT(w.size()));
        if (v.IsUndefined()) vf::fail("c05:deep:valid-nesting-rejected", "depth=%u family=%u rejected", depth, unsigned(c % 3));
    }
}

// structural closing brackets of a valid document
static std::vector<size_t> closers(const std::string &d) {
    std::vector<size_t> v;
    bool                in_str = false;
    for (size_t i = 0; i < d.size(); ++i) {
        char ch = d[i];
        if (in_str) {
            if (ch == '\\') ++i;
            else if (ch == '"') in_str = false;
        } else if (ch == '"') {
            in_str = true;
        } else if (ch == ']' || ch == '}') {
            v.push_back(i);
        }
    }
    return v;
}

// positions of the structural characters [ ] { } , : of a valid document
static std::vector<size_t> structural(const std::string &d) {
    std::vector<size_t> v;
    bool                in_str = false;
    for (size_t i = 0; i < d.size(); ++i) {
        char ch = d[i];
        if (in_str) {
            if (ch == '\\') ++i;
            else if (ch == '"') in_str = false;
        } else if (ch == '"') {
            in_str = true;
        } else if (ch == ']' || ch == '}' || ch == '[' || ch == '{' || ch == ',' || ch == ':') {
            v.push_back(i);
        }
    }
    return v;
}

template <typename Char_T>
static void parse_units(const std::basic_string<char32_t> &t, const char *key, const char *what, unsigned u) {
    std::vector<Char_T> w(t.size());
    for (size_t i = 0; i < t.size(); ++i) w[i] = Char_T(t[i]);
    Value<Char_T> v = JSON::Parse(w.data(), SizeT(w.size()));
    if (!v.IsUndefined()) {
        std::string shown;
        for (char32_t x : t) {
            char b[16];
            if (x >= 0x20 && x < 0x7F) shown += char(x);
            else { snprintf(b, sizeof(b), "\\u%04x", unsigned(x)); shown += b; }
            if (shown.size() > 300) break;
        }
        vf::fail(key, "unit U+%04X %s, width %zu: accepted: %s", u, what, sizeof(Char_T), shown.c_str());
    }
}

template <typename Char_T>
static void c07_prefixes(const std::string &d) {
    // same buffer, shorter length: the units after the cut are the rest of the valid document
    std::vector<Char_T> w(d.size());
    for (size_t i = 0; i < d.size(); ++i) w[i] = Char_T((unsigned char)d[i]);
    for (size_t k = 0; k < d.size(); ++k) {
        if (vf::g_verbose) fprintf(stderr, "TRACE c07 prefix k=%zu of %zu unit=%zu\n", k, d.size(), sizeof(Char_T));
        Value<Char_T> v = JSON::Parse(w.data(), SizeT(k));
        vf::count("c07_prefix_parses");
        if (!v.IsUndefined()) {
            vf::fail("c07:prefix-accepted", "cut=%zu of %zu unit=%zu prefix=%s | rest=%s", k, d.size(), sizeof(Char_T),
                     vf::show(d.data(), k, 300).c_str(), vf::show(d.data() + k, d.size() - k, 60).c_str());
        }
    }
}

static void run_c07(uint64_t c) {
    vf::Rng  r(vf::g_seed, c);
    jg::Opts op;
    op.max_depth = 1 + r.below(5);
    op.max_items = 1 + r.below(5);
    std::string d = jg::gen_doc(r, op);
    if (d.size() > 1500) {
        // keep documents short enough that every prefix is tried: regenerate smaller
        op.max_depth = 2;
        op.max_items = 3;
        d            = jg::gen_doc(r, op);
    }
    bool lone_low = false;
    if ((c & 3) == 3) {
        // escape phase family: a string holding one escape of every form, k ordinary units, an escaped quote and then the
        // text that would close the document; a scanner that steps over the wrong number of units after the escape ends
        // the string at that quote and accepts a proper prefix
        static const char *esc[] = {"\\\"", "\\\\", "\\/", "\\b", "\\f", "\\n", "\\r", "\\t", "\\u0041", "\\u00e9", "\\u20AC", "\\uFFFF",
                                    "\\uD83D\\uDE00", "\\udbff\\udfff", "\\uDC00", "\\uDFFF", "\\udead"};
        unsigned           which = unsigned((c >> 2) % 17);
        unsigned           k     = unsigned((c >> 2) / 17 % 10);
        lone_low                 = which >= 14;
        std::string opens, closers;
        unsigned    depth = 1 + r.below(3);
        for (unsigned i = 0; i < depth; ++i) {
            if (r.chance(1, 2)) {
                opens += "[";
                closers = "]" + closers;
            } else {
                opens += "{\"k\":";
                closers = "}" + closers;
            }
        }
        std::string body;
        for (unsigned i = r.below(4); i > 0; --i) body += char('a' + r.below(26));
        body += esc[which];
        for (unsigned i = 0; i < k; ++i) body += char("abcdef0123456789xyz"[r.below(19)]);
        body += "\\\"";
        body += closers;
        if (r.chance(1, 2)) body += ",\\\"x\\\":1" + closers;
        d = opens + "\"" + body + "\"" + closers;
        vf::count("c07_escape_phase_documents");
    }
    vf::distinct(vf::fnv(d.data(), d.size()));
    vf::count("c07_documents");
    if (vf::want_sample() && (c % 3) == 0) vf::sample("document (%zu units, all prefixes + 8 suffixes + every closer swapped/removed): %s", d.size(), vf::show(d.data(), d.size(), 300).c_str());
    // the document itself must be accepted (otherwise the prefixes prove nothing)
    {
        std::vector<char> w(d.begin(), d.end());
        Value<char>       v = JSON::Parse(w.data(), SizeT(w.size()));
        if (v.IsUndefined()) {
            // (a lone low-surrogate escape is grammatical JSON and accepted today, but what it denotes is not fixed by
            // the statement: a refusal is only counted; the document is RFC 8259-valid either way, so its proper prefixes
            // and the other variants must still be rejected)
            if (lone_low) {
                vf::count("c07_lone_low_surrogate_documents_refused");
            } else {
                vf::fail("c07:valid-document-rejected", "text=%s", vf::show(d.data(), d.size(), 600).c_str());
                return;
            }
        }
    }
    switch (c % 3) {
        case 0: c07_prefixes<char>(d); break;
        case 1: c07_prefixes<char16_t>(d); break;
        default: c07_prefixes<char32_t>(d);
    }
    static const char *suff[] = {"]", "}", ",", ":", "\"", "0", "a", "[", "{", "t", "null", "1"};
    for (const char *s : suff) {
        parse_once<char>(d + s, 9, true, "c07:trailing-accepted", s);
        vf::count("c07_suffix_parses");
    }
    {
        std::string t = d;
        t += char(0x21 + r.below(0x5E));
        parse_once<char16_t>(t, 9, true, "c07:trailing-accepted", "random unit");
        parse_once<char32_t>(d + " ,", 9, true, "c07:trailing-accepted", "space comma");
        parse_once<char>(d + "\n]", 9, true, "c07:trailing-accepted", "newline bracket");
    }
    // units that are not JSON whitespace although other grammars (isspace, Unicode) treat them as blank: after, before and
    // between the tokens of a valid document each one must make the parse fail
    {
        static const unsigned nonws[] = {0x00, 0x01, 0x08, 0x0B, 0x0C, 0x0E, 0x1C, 0x1D, 0x1E, 0x1F, 0x7F, 0x85, 0xA0, 0x2028, 0x3000, 0xFEFF};
        std::vector<size_t>   st      = structural(d);
        for (unsigned u : nonws) {
            const size_t            where = st[r.below(uint32_t(st.size()))];
            std::basic_string<char32_t> w(d.begin(), d.end());
            for (auto &x : w) x = char32_t((unsigned char)x);
            std::basic_string<char32_t> a = w, b = w, m = w;
            a += char32_t(u);
            b.insert(b.begin(), char32_t(u));
            m.insert(m.begin() + long(where) + (r.chance(1, 2) ? 1 : 0), char32_t(u));
            const unsigned wsel = (u < 0x100) ? unsigned((u + c) % 3) : (1 + unsigned((u + c) % 2));
            if (wsel == 0) {
                parse_units<char>(a, "c07:non-json-blank-accepted", "after the document", u);
                parse_units<char>(b, "c07:non-json-blank-accepted", "before the document", u);
                parse_units<char>(m, "c07:non-json-blank-accepted", "next to a structural character", u);
            } else if (wsel == 1) {
                parse_units<char16_t>(a, "c07:non-json-blank-accepted", "after the document", u);
                parse_units<char16_t>(b, "c07:non-json-blank-accepted", "before the document", u);
                parse_units<char16_t>(m, "c07:non-json-blank-accepted", "next to a structural character", u);
            } else {
                parse_units<char32_t>(a, "c07:non-json-blank-accepted", "after the document", u);
                parse_units<char32_t>(b, "c07:non-json-blank-accepted", "before the document", u);
                parse_units<char32_t>(m, "c07:non-json-blank-accepted", "next to a structural character", u);
            }
            vf::count("c07_blank_parses", 3);
        }
    }
    // a raw TAB / LF / CR inside a string (values and keys) makes the text invalid; the string may begin with a character
    // that would be structure if the scanner resumed inside it
    {
        std::vector<size_t> opens;
        bool                in_str = false;
        for (size_t i = 0; i < d.size(); ++i) {
            if (in_str) {
                if (d[i] == '\\') ++i;
                else if (d[i] == '"') in_str = false;
            } else if (d[i] == '"') {
                in_str = true;
                opens.push_back(i);
            }
        }
        for (int k = 0; k < 4 && !opens.empty(); ++k) {
            size_t             at = opens[r.below(uint32_t(opens.size()))];
            static const char *lead[] = {"", "]", "}", ",", "],", "\\\"]"};
            std::string        ins    = lead[r.below(6)];
            ins += "\t\n\r"[r.below(3)];
            std::string t = d.substr(0, at + 1) + ins + d.substr(at + 1);
            switch (k % 3) {
                case 0: parse_once<char>(t, 9, true, "c07:raw-control-in-string-accepted", "TAB/LF/CR inside a string"); break;
                case 1: parse_once<char16_t>(t, 9, true, "c07:raw-control-in-string-accepted", "TAB/LF/CR inside a string"); break;
                default: parse_once<char32_t>(t, 9, true, "c07:raw-control-in-string-accepted", "TAB/LF/CR inside a string");
            }
            vf::count("c07_raw_control_parses");
        }
    }
    for (size_t pos : closers(d)) {
        std::string sw = d;
        sw[pos]        = d[pos] == ']' ? '}' : ']';
        parse_once<char>(sw, 9, true, "c07:bracket-swapped-accepted", "closing bracket replaced");
        std::string rm = d;
        rm.erase(pos, 1);
        switch (pos % 3) {
            case 0: parse_once<char>(rm, 9, true, "c07:bracket-removed-accepted", "closing bracket removed"); break;
            case 1: parse_once<char16_t>(rm, 9, true, "c07:bracket-removed-accepted", "closing bracket removed"); break;
            default: parse_once<char32_t>(rm, 9, true, "c07:bracket-removed-accepted", "closing bracket removed");
        }
        vf::count("c07_bracket_parses", 2);
    }
}

// ------------------------------------------------------------------ C06: differential dump
template <typename Char_T>
static void dump(const Value<Char_T> &v, std::string &o) {
    char b[64];
    if (v.IsObject()) {
        o += '{';
        const SizeT n = v.Size();
        for (SizeT i = 0; i < n; ++i) {
            const Value<Char_T>  *c = v.GetValue(i);
            const String<Char_T> *k = v.GetKey(i);
            if (c == nullptr || k == nullptr) continue;
            o += 'K';
            for (SizeT j = 0; j < k->Length(); ++j) {
                snprintf(b, sizeof(b), sizeof(Char_T) == 1 ? "%02x" : (sizeof(Char_T) == 2 ? "%04x" : "%08x"),
                         unsigned(k->First()[j]) & (sizeof(Char_T) == 1 ? 0xFFu : (sizeof(Char_T) == 2 ? 0xFFFFu : 0xFFFFFFFFu)));
                o += b;
            }
            o += ':';
            dump(*c, o);
            o += ',';
        }
        o += '}';
    } else if (v.IsArray()) {
        o += '[';
        const SizeT n = v.Size();
        for (SizeT i = 0; i < n; ++i) {
            const Value<Char_T> *c = v.GetValue(i);
            if (c == nullptr) o += '?';
            else dump(*c, o);
            o += ',';
        }
        o += ']';
    } else if (v.IsString()) {
        const Char_T *s;
        SizeT         n;
        v.SetCharAndLength(s, n);
        o += 'S';
        for (SizeT j = 0; j < n; ++j) {
            snprintf(b, sizeof(b), sizeof(Char_T) == 1 ? "%02x" : (sizeof(Char_T) == 2 ? "%04x" : "%08x"),
                     unsigned(s[j]) & (sizeof(Char_T) == 1 ? 0xFFu : (sizeof(Char_T) == 2 ? 0xFFFFu : 0xFFFFFFFFu)));
            o += b;
        }
    } else if (v.IsUInt64()) {
        snprintf(b, sizeof(b), "U%llu", (unsigned long long)v.GetUInt64());
        o += b;
    } else if (v.IsInt64()) {
        snprintf(b, sizeof(b), "I%lld", (long long)v.GetInt64());
        o += b;
    } else if (v.IsDouble()) {
        double   d = v.GetDouble();
        uint64_t bits;
        memcpy(&bits, &d, 8);
        snprintf(b, sizeof(b), "D%016llx", (unsigned long long)bits);
        o += b;
    } else if (v.IsTrue()) {
        o += 'T';
    } else if (v.IsFalse()) {
        o += 'F';
    } else if (v.IsNull()) {
        o += 'N';
    } else {
        o += '?';
    }
}

template <typename Char_T>
struct C06State {
    StringStream<Char_T> shared; // scratch stream reused across documents (and after rejected documents)
};

template <typename Char_T>
static void c06_one(const vf::CaseFile &cf, size_t c, size_t field, const char *enc, FILE *out, C06State<Char_T> &st, vf::Rng &r) {
    size_t               nbytes;
    const unsigned char *p = cf.field(c, field, nbytes);
    size_t               n = nbytes / sizeof(Char_T);
    std::vector<Char_T>  w(n);
    if (n) memcpy(w.data(), p, n * sizeof(Char_T));
    {
        vf::ExactBuf<Char_T> b(w.data(), n);
        Value<Char_T>        v = JSON::Parse(b.p, SizeT(b.n));
        std::string          o;
        dump(v, o);
        fprintf(out, "%zu %s fresh %s\n", c, enc, o.c_str());
        vf::count("c06_parses");
    }
    {
        // history variant: sometimes a rejected document goes through the shared scratch stream first
        unsigned pre = r.below(4);
        if (pre == 0) {
            static const char *bad[] = {"[\"ab\\q\"]", "{\"k\\x\":1}", "[\"zz\\u12\"]", "[\"a\\", "{\"abc\\"};
            const char        *t     = bad[r.below(5)];
            std::vector<Char_T> bw;
            for (const char *q = t; *q; ++q) bw.push_back(Char_T(*q));
            Value<Char_T> bv = JSON::Parse(st.shared, bw.data(), SizeT(bw.size()));
            if (!bv.IsUndefined()) vf::fail("c06:invalid-escape-accepted", "text=%s", t);
            vf::count("c06_rejected_before");
        }
        vf::ExactBuf<Char_T> b(w.data(), n);
        Value<Char_T>        v = JSON::Parse(st.shared, b.p, SizeT(b.n));
        std::string          o;
        dump(v, o);
        fprintf(out, "%zu %s %s %s\n", c, enc, pre == 0 ? "shared-after-reject" : "shared", o.c_str());
        vf::count("c06_parses");
    }
}

int main(int argc, char **argv) {
    vf::Args    a    = vf::parse_args(argc, argv);
    std::string mode = a.opts("mode", "c05");
    if (mode == "c06") {
        vf::CaseFile       cf(a.casefile);
        std::string        op = a.outfile + "." + std::to_string(a.from);
        FILE              *out = fopen(op.c_str(), "w");
        C06State<char>     s8;
        C06State<char16_t> s16;
        C06State<char32_t> s32;
        C06State<wchar_t>  sw;
        if (!out) return 2;
        for (uint64_t c = a.from; c < a.to && c < cf.size(); ++c) {
            vf::begin_case(c);
            vf::Rng r(vf::g_seed, c);
            c06_one<char>(cf, c, 0, "utf8", out, s8, r);
            c06_one<char16_t>(cf, c, 1, "utf16", out, s16, r);
            c06_one<char32_t>(cf, c, 2, "utf32", out, s32, r);
            if ((c & 3) == 0) c06_one<wchar_t>(cf, c, 2, "utf32w", out, sw, r);
            fflush(out);
            vf::end_case(false);
        }
        fclose(out);
        return vf::finish(a);
    }
    for (uint64_t c = a.from; c < a.to; ++c) {
        vf::begin_case(c);
        if (mode == "c05") run_c05(c);
        else if (mode == "deep") run_deep(c);
        else if (mode == "c07") run_c07(c);
        else {
            fprintf(stderr, "bad mode\n");
            return 2;
        }
        vf::end_case();
    }
    vf::count("value_nodes_walked", g_nodes);
    return vf::finish(a);
}
