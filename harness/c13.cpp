// C13: HArray / HList against an insertion-ordered map model, compared after every step.
#include "common.hpp"

#include <algorithm>

#include "Array.hpp"
#include "HArray.hpp"
#include "HList.hpp"
#include "String.hpp"

using namespace Qentem;
using Key = String<char>;

static const char *g_fam = "";
#define STEP(name)                                                                          \
    do {                                                                                    \
        opname = (name);                                                                    \
        if (vf::g_verbose) fprintf(stderr, "TRACE %s step %u: %s\n", g_fam, step, opname);  \
        vf::g_counters[std::string("op_") + g_fam + ":" + opname] += 1;                     \
    } while (0)

static std::string fkey(const char *op, const char *what) {
    return std::string("c13:") + g_fam + ":" + op + ":" + what;
}

// ---- value adaptors
template <typename V>
struct Val;
template <>
struct Val<String<char>> {
    using M = std::string;
    static String<char> make(vf::Rng &r) {
        std::string s;
        unsigned    n = r.below(5);
        for (unsigned i = 0; i < n; ++i) s += char('a' + r.below(26));
        return String<char>((const char *)s.data(), SizeT(s.size()));
    }
    static M model(const String<char> &v) {
        return std::string(v.First() ? v.First() : "", v.Length());
    }
};
template <>
struct Val<int> {
    using M = int;
    static int make(vf::Rng &r) {
        return int(r.below(100000));
    }
    static M model(const int &v) {
        return v;
    }
};
template <>
struct Val<Array<String<char>>> {
    using M = std::vector<std::string>;
    static Array<String<char>> make(vf::Rng &r) {
        Array<String<char>> a;
        unsigned            n = r.below(3);
        for (unsigned i = 0; i < n; ++i) a += Val<String<char>>::make(r);
        return a;
    }
    static M model(const Array<String<char>> &v) {
        M m;
        for (const String<char> &s : v) m.push_back(Val<String<char>>::model(s));
        return m;
    }
};

struct NoVal {};

template <typename MV>
struct Entry {
    std::string key;
    MV          val;
    bool        live;
};

template <typename MV>
struct Model {
    std::vector<Entry<MV>> e;
    int find(const std::string &k) const {
        for (size_t i = 0; i < e.size(); ++i) {
            if (e[i].live && e[i].key == k) return int(i);
        }
        return -1;
    }
    size_t live() const {
        size_t n = 0;
        for (auto &x : e) n += x.live;
        return n;
    }
    void compact() {
        std::vector<Entry<MV>> n;
        for (auto &x : e) {
            if (x.live) n.push_back(x);
        }
        e.swap(n);
    }
    bool has_dead() const {
        for (auto &x : e) {
            if (!x.live) return true;
        }
        return false;
    }
    MV &upsert(const std::string &k) { // get-or-create
        int i = find(k);
        if (i >= 0) return e[size_t(i)].val;
        e.push_back(Entry<MV>{k, MV{}, true});
        return e.back().val;
    }
};

// key pools
static std::vector<std::string> make_pool(vf::Rng &r, unsigned kind) {
    std::vector<std::string> p;
    switch (kind % 6) {
        case 5: { // long keys that differ in one unit at or next to a 16/32/64-unit block edge, or only in length
            static const unsigned at[] = {0, 14, 15, 16, 17, 30, 31, 32, 33, 47, 48, 62, 63, 64, 65, 70};
            std::string           base(71, 'k');
            for (unsigned i = 0; i < 10; ++i) {
                std::string k2 = base;
                k2[at[r.below(16)]] = char('a' + r.below(3));
                if (r.chance(1, 3)) k2.resize(at[r.below(16)] + 1);
                p.push_back(k2);
            }
            p.push_back(base);
            p.push_back(base.substr(0, 64));
            p.push_back(base.substr(0, 32));
            p.push_back(base.substr(0, 16));
            break;
        }
        case 0: // tiny alphabet: duplicates everywhere
            p = {"a", "b", "c", "d", "ab", "abc", "b1", "", "aa"};
            break;
        case 1: // full 32-bit collisions: the hash ignores the first unit
            p = {"ax", "bx", "cx", "dx", "ex", "fx", "gx", "hx", "ix", "jx", "a", "x"};
            // ... and pairs with equal hash where one key is a proper prefix of the other (only the length differs)
            if (r.chance(1, 2)) p = {"s", "sh", "t", "ti", "l", "la", "m", "mb", "x", "xm", "ax", "bx"};
            break;
        case 2: // embedded NULs and the empty key
            p = {std::string("a\0b", 3), std::string("a\0c", 3), std::string("\0", 1), std::string("\0\0", 2), "", "a", std::string("ab\0", 3), "ab"};
            break;
        case 3: { // random bytes
            for (int i = 0; i < 14; ++i) {
                std::string s;
                unsigned    n = r.below(7);
                for (unsigned j = 0; j < n; ++j) s += char(r.below(256));
                p.push_back(s);
            }
            break;
        }
        default: { // many keys: forces growth through several capacities
            for (int i = 0; i < 70; ++i) p.push_back("k" + std::to_string(i * 7 % 70));
        }
    }
    return p;
}

static bool lex_less(const std::string &a, const std::string &b) {
    return std::lexicographical_compare(a.begin(), a.end(), b.begin(), b.end(),
                                        [](char x, char y) { return x < y; });
}

template <typename Table, typename V, bool HasV>
struct Ops {
    using MV = typename std::conditional<HasV, typename Val<typename std::conditional<HasV, V, int>::type>::M, int>::type;
};

template <typename Table, typename V, bool HasV, typename MV>
static bool check_table(const Table &t, const Model<MV> &m, const std::vector<std::string> &pool, const char *op, unsigned step, unsigned var) {
    // iteration: live entries in order
    size_t li = 0;
    std::vector<const Entry<MV> *> live;
    for (auto &x : m.e) {
        if (x.live) live.push_back(&x);
    }
    if (t.ActualSize() != live.size()) {
        vf::fail(fkey(op, "actual-size").c_str(), "step=%u var=%u actual=%u model=%zu", step, var, unsigned(t.ActualSize()), live.size());
        return false;
    }
    if (t.Size() < live.size() || t.Capacity() < t.Size()) {
        vf::fail(fkey(op, "size-capacity").c_str(), "step=%u var=%u size=%u capacity=%u live=%zu", step, var, unsigned(t.Size()), unsigned(t.Capacity()), live.size());
        return false;
    }
    for (SizeT i = 0; i < t.Size(); ++i) {
        const Key *k  = t.GetKey(i);
        const auto *it = t.GetItem(i);
        if ((k == nullptr) != (it == nullptr)) {
            vf::fail(fkey(op, "getkey-getitem-disagree").c_str(), "step=%u var=%u index=%u", step, var, unsigned(i));
            return false;
        }
        if (k == nullptr) continue;
        if (li >= live.size()) {
            vf::fail(fkey(op, "extra-entry").c_str(), "step=%u var=%u index=%u key=%s", step, var, unsigned(i), vf::show(k->First(), k->Length()).c_str());
            return false;
        }
        std::string ks(k->First() ? k->First() : "", k->Length());
        if (ks != live[li]->key || &(it->Key) != k) {
            vf::fail(fkey(op, "iteration-order").c_str(), "step=%u var=%u position=%zu got=%s model=%s", step, var, li,
                     vf::show(ks.data(), ks.size()).c_str(), vf::show(live[li]->key.data(), live[li]->key.size()).c_str());
            return false;
        }
        if (k->Length() && k->First()[k->Length()] != 0) {
            vf::fail(fkey(op, "key-terminator").c_str(), "step=%u var=%u", step, var);
            return false;
        }
        if constexpr (HasV) {
            const V *v = t.GetValue(i);
            if (v == nullptr || !(Val<V>::model(*v) == live[li]->val) || v != &(it->Value)) {
                vf::fail(fkey(op, "value-by-index").c_str(), "step=%u var=%u position=%zu key=%s", step, var, li, vf::show(ks.data(), ks.size()).c_str());
                return false;
            }
        }
        ++li;
    }
    if (li != live.size()) {
        vf::fail(fkey(op, "missing-entry").c_str(), "step=%u var=%u iterated=%zu model=%zu", step, var, li, live.size());
        return false;
    }
    // lookups for every key of the pool (present, removed, never inserted)
    for (const std::string &ks : pool) {
        int   mi   = m.find(ks);
        Key   k((const char *)ks.data(), SizeT(ks.size()));
        bool  has1 = t.Has(k), has2 = t.Has(ks.data(), SizeT(ks.size()));
        SizeT idx  = 0;
        bool  gi   = t.GetKeyIndex(idx, k);
        SizeT idx2 = 0;
        bool  gi2  = t.GetKeyIndex(idx2, ks.data(), SizeT(ks.size()));
        const auto *it = t.GetItem(k);
        if (has1 != (mi >= 0) || has2 != has1 || gi != has1 || gi2 != has1 || (it != nullptr) != has1) {
            vf::fail(fkey(op, "lookup-presence").c_str(), "step=%u var=%u key=%s model_present=%d Has=%d/%d GetKeyIndex=%d/%d GetItem=%d", step, var,
                     vf::show(ks.data(), ks.size()).c_str(), mi >= 0, has1, has2, gi, gi2, it != nullptr);
            return false;
        }
        if (has1) {
            const Key *kk = t.GetKey(idx);
            if (idx != idx2 || kk == nullptr || std::string(kk->First() ? kk->First() : "", kk->Length()) != ks || t.GetItem(idx) != it) {
                vf::fail(fkey(op, "key-index-roundtrip").c_str(), "step=%u var=%u key=%s index=%u", step, var, vf::show(ks.data(), ks.size()).c_str(), unsigned(idx));
                return false;
            }
            if constexpr (HasV) {
                const V *v1 = t.GetValue(k), *v2 = t.GetValue(ks.data(), SizeT(ks.size())), *v3 = t.GetValue(idx);
                if (v1 == nullptr || v1 != v2 || v1 != v3 || !(Val<V>::model(*v1) == m.e[size_t(mi)].val)) {
                    vf::fail(fkey(op, "lookup-value").c_str(), "step=%u var=%u key=%s", step, var, vf::show(ks.data(), ks.size()).c_str());
                    return false;
                }
            }
        } else {
            if constexpr (HasV) {
                if (t.GetValue(k) != nullptr) {
                    vf::fail(fkey(op, "lookup-value-of-absent").c_str(), "step=%u var=%u key=%s", step, var, vf::show(ks.data(), ks.size()).c_str());
                    return false;
                }
            }
        }
        vf::count("lookups");
    }
    if (t.GetKey(t.Size()) != nullptr || t.GetItem(t.Size() + 3) != nullptr) {
        vf::fail(fkey(op, "index-out-of-range").c_str(), "step=%u var=%u", step, var);
        return false;
    }
    return true;
}

template <typename Table, typename V, bool HasV>
static void history(uint64_t c, const char *fam) {
    g_fam = fam;
    vf::Rng r(vf::g_seed, c);
    using MV = typename std::conditional<HasV, typename Val<typename std::conditional<HasV, V, int>::type>::M, int>::type;
    const unsigned           K = 3;
    std::vector<std::string> pool = make_pool(r, unsigned(c / 4));
    {
        Table     t[K];
        Model<MV> m[K];
        unsigned  steps  = r.range(10, 90);
        const char *opname = "init";
        unsigned   max_chain_probe = 0;
        (void)max_chain_probe;
        for (unsigned step = 0; step < steps; ++step) {
            unsigned           x = r.below(K), y = r.below(K);
            const std::string &ks = pool[r.below(uint32_t(pool.size()))];
            bool               nul_free = ks.find('\0') == std::string::npos;
            unsigned           op = r.below(40);
            switch (op) {
                case 0: case 1: case 2: case 3: case 4: case 5: case 6: case 7: {
                    if constexpr (HasV) {
                        V  v  = Val<V>::make(r);
                        MV mv = Val<V>::model(v);
                        switch (r.below(5)) {
                            case 0: {
                                STEP("insert-move-move");
                                t[x].Insert(Key((const char *)ks.data(), SizeT(ks.size())), Memory::Move(v));
                                break;
                            }
                            case 1: {
                                STEP("insert-copy-copy");
                                Key k((const char *)ks.data(), SizeT(ks.size()));
                                t[x].Insert(k, v);
                                break;
                            }
                            case 2: {
                                STEP("insert-ptr-len");
                                t[x].Insert(ks.data(), SizeT(ks.size()), Memory::Move(v));
                                break;
                            }
                            case 3: {
                                STEP("insert-copy-move");
                                Key k((const char *)ks.data(), SizeT(ks.size()));
                                t[x].Insert(k, Memory::Move(v));
                                break;
                            }
                            default: {
                                STEP("insert-move-copy");
                                t[x].Insert(Key((const char *)ks.data(), SizeT(ks.size())), v);
                            }
                        }
                        m[x].upsert(ks) = mv;
                    } else {
                        switch (r.below(3)) {
                            case 0: STEP("insert-ptr-len"); t[x].Insert(ks.data(), SizeT(ks.size())); break;
                            case 1: {
                                STEP("insert-copy");
                                Key k((const char *)ks.data(), SizeT(ks.size()));
                                t[x].Insert(k);
                                break;
                            }
                            default: STEP("insert-move"); t[x].Insert(Key((const char *)ks.data(), SizeT(ks.size())));
                        }
                        m[x].upsert(ks);
                    }
                    break;
                }
                case 8: case 9: case 10: case 11: {
                    if constexpr (HasV) {
                        V  *ref;
                        switch (r.below(4)) {
                            case 0:
                                if (nul_free) {
                                    STEP("subscript-literal");
                                    ref = &t[x][ks.c_str()];
                                    break;
                                }
                                // fallthrough
                            case 1: {
                                STEP("subscript-key-copy");
                                Key k((const char *)ks.data(), SizeT(ks.size()));
                                ref = &t[x][k];
                                break;
                            }
                            case 2: STEP("subscript-key-move"); ref = &t[x][Key((const char *)ks.data(), SizeT(ks.size()))]; break;
                            default: STEP("get-or-create"); ref = &t[x].Get(ks.data(), SizeT(ks.size()));
                        }
                        MV &mv = m[x].upsert(ks);
                        if (!(Val<V>::model(*ref) == mv)) vf::fail(fkey(opname, "returned-value").c_str(), "step=%u key=%s", step, vf::show(ks.data(), ks.size()).c_str());
                        if (r.chance(2, 3)) {
                            V v  = Val<V>::make(r);
                            mv   = Val<V>::model(v);
                            *ref = Memory::Move(v);
                        }
                    }
                    break;
                }
                case 12: case 13: case 14: case 15: {
                    int mi = m[x].find(ks);
                    if (mi >= 0) m[x].e[size_t(mi)].live = false;
                    switch (r.below(3)) {
                        case 0:
                            if (nul_free) {
                                STEP("remove-literal");
                                t[x].Remove(ks.c_str());
                                break;
                            }
                            // fallthrough
                        case 1: STEP("remove-ptr-len"); t[x].Remove(ks.data(), SizeT(ks.size())); break;
                        default: {
                            STEP("remove-key");
                            Key k((const char *)ks.data(), SizeT(ks.size()));
                            t[x].Remove(k);
                        }
                    }
                    break;
                }
                case 16: case 17: {
                    STEP("remove-index");
                    SizeT idx;
                    Key   k((const char *)ks.data(), SizeT(ks.size()));
                    if (t[x].GetKeyIndex(idx, k)) {
                        int mi = m[x].find(ks);
                        if (mi >= 0) m[x].e[size_t(mi)].live = false;
                        t[x].RemoveIndex(idx);
                    } else {
                        t[x].RemoveIndex(t[x].Size() + r.below(3)); // out of range: no effect
                    }
                    break;
                }
                case 18: case 19: case 20: {
                    const std::string &to = pool[r.below(uint32_t(pool.size()))];
                    STEP("rename");
                    int  a = m[x].find(ks), b = m[x].find(to);
                    bool expect = (a >= 0 && b < 0);
                    Key  from((const char *)ks.data(), SizeT(ks.size()));
                    bool got;
                    if (r.chance(1, 2)) {
                        got = t[x].Rename(from, Key((const char *)to.data(), SizeT(to.size())));
                    } else {
                        Key tk((const char *)to.data(), SizeT(to.size()));
                        got = t[x].Rename(from, tk);
                    }
                    if (expect) m[x].e[size_t(a)].key = to;
                    if (got != expect) vf::fail(fkey(opname, "result").c_str(), "step=%u from=%s to=%s got=%d expected=%d", step,
                                                vf::show(ks.data(), ks.size()).c_str(), vf::show(to.data(), to.size()).c_str(), got, expect);
                    break;
                }
                case 21: case 22: {
                    if (x == y) break;
                    STEP("merge-copy");
                    for (auto &se : m[y].e) {
                        if (!se.live) continue;
                        MV &d = m[x].upsert(se.key);
                        if (HasV) d = se.val;
                    }
                    t[x] += t[y];
                    break;
                }
                case 23: case 24: {
                    if (x == y) break;
                    STEP("merge-move");
                    for (auto &se : m[y].e) {
                        if (!se.live) continue;
                        MV &d = m[x].upsert(se.key);
                        if (HasV) d = se.val;
                    }
                    m[y].e.clear();
                    t[x] += Memory::Move(t[y]);
                    if (t[y].Size() != 0 || t[y].Capacity() != 0) vf::fail(fkey(opname, "source-not-empty").c_str(), "step=%u", step);
                    break;
                }
                case 25: {
                    STEP("reserve");
                    unsigned n = r.below(20);
                    m[x].e.clear();
                    t[x].Reserve(SizeT(n));
                    if (t[x].Capacity() < n) vf::fail(fkey(opname, "capacity").c_str(), "step=%u", step);
                    break;
                }
                case 26: {
                    // Resize: only n >= live count with no removed entries, or 0
                    if (m[x].has_dead() || t[x].Size() != t[x].ActualSize()) {
                        STEP("compress");
                        m[x].compact();
                        t[x].Compress();
                        break;
                    }
                    STEP("resize");
                    unsigned n = r.chance(1, 4) ? 0 : unsigned(m[x].live()) + r.below(6);
                    if (r.chance(1, 4) && m[x].live() > 1) {
                        // shrink: the entries beyond the new size are dropped, the first n stay (no removed entries here)
                        n = 1 + r.below(unsigned(m[x].live()) - 1);
                        m[x].e.resize(n);
                    }
                    if (n == 0) m[x].e.clear();
                    t[x].Resize(SizeT(n));
                    break;
                }
                case 27: {
                    STEP("expect");
                    unsigned n = r.below(20);
                    t[x].Expect(SizeT(n));
                    m[x].compact();
                    if (t[x].Capacity() < t[x].Size() + n) vf::fail(fkey(opname, "capacity").c_str(), "step=%u", step);
                    break;
                }
                case 28: {
                    STEP("compress");
                    m[x].compact();
                    t[x].Compress();
                    break;
                }
                case 29: {
                    STEP("clear");
                    m[x].e.clear();
                    t[x].Clear();
                    break;
                }
                case 30: {
                    STEP("reset");
                    m[x].e.clear();
                    t[x].Reset();
                    if (t[x].Capacity() != 0) vf::fail(fkey(opname, "capacity").c_str(), "step=%u", step);
                    break;
                }
                case 31: case 32: {
                    bool asc = r.chance(1, 2);
                    STEP(asc ? "sort-ascending" : "sort-descending");
                    m[x].compact();
                    std::stable_sort(m[x].e.begin(), m[x].e.end(), [asc](const Entry<MV> &a, const Entry<MV> &b) {
                        return asc ? lex_less(a.key, b.key) : lex_less(b.key, a.key);
                    });
                    t[x].Sort(asc);
                    break;
                }
                case 33: {
                    STEP(x == y ? "copy-assign-self" : "copy-assign");
                    if (x != y) {
                        m[x] = m[y];
                        m[x].compact();
                    }
                    t[x] = t[y];
                    break;
                }
                case 34: {
                    if (x == y) {
                        STEP("move-assign-self");
                        Table &self = t[x];
                        t[x]        = Memory::Move(self);
                        break;
                    }
                    STEP("move-assign");
                    m[x] = m[y];
                    m[y].e.clear();
                    t[x] = Memory::Move(t[y]);
                    break;
                }
                case 35: {
                    STEP("copy-construct");
                    Table      n(t[y]);
                    Model<MV> mm = m[y];
                    mm.compact();
                    check_table<Table, V, HasV, MV>(n, mm, pool, opname, step, 9);
                    m[x] = mm;
                    t[x] = Memory::Move(n);
                    break;
                }
                case 36: {
                    if (x == y) break;
                    STEP("move-construct");
                    Table n(Memory::Move(t[y]));
                    m[x] = m[y];
                    m[y].e.clear();
                    t[x] = Memory::Move(n);
                    break;
                }
                case 37: {
                    STEP("construct-sized");
                    unsigned n = r.below(12);
                    Table    z{SizeT(n)};
                    if (z.Size() != 0 || z.Capacity() < n) vf::fail(fkey(opname, "capacity").c_str(), "step=%u", step);
                    m[x].e.clear();
                    t[x] = Memory::Move(z);
                    break;
                }
                default: {
                    // burst of inserts: drives the load past each capacity
                    STEP("insert-burst");
                    unsigned n = r.range(2, 12);
                    for (unsigned i = 0; i < n; ++i) {
                        const std::string &k2 = pool[r.below(uint32_t(pool.size()))];
                        if constexpr (HasV) {
                            V v               = Val<V>::make(r);
                            m[x].upsert(k2)   = Val<V>::model(v);
                            t[x].Insert(Key((const char *)k2.data(), SizeT(k2.size())), Memory::Move(v));
                        } else {
                            m[x].upsert(k2);
                            t[x].Insert(k2.data(), SizeT(k2.size()));
                        }
                    }
                }
            }
            bool ok = true;
            for (unsigned v = 0; v < K && ok; ++v) ok = check_table<Table, V, HasV, MV>(t[v], m[v], pool, opname, step, v);
            if (!ok) break;
            vf::count("steps");
            vf::count_max("max_size", t[x].Size());
        }
    }
}

// ------------------------------------------------------------------ nested tables: assignment from one's own descendant
// A table whose values own tables of the same type. Copy- or move-assigning a descendant's table over an ancestor reads
// the source while (or after) the destination's old content, which contains the source, is released.
struct NNode {
    String<char>        Tag;
    HArray<Key, NNode> Kids;
};
struct MNode {
    std::string                                tag;
    std::vector<std::pair<std::string, MNode>> kids;
};

static void nested_build(vf::Rng &r, HArray<Key, NNode> &t, std::vector<std::pair<std::string, MNode>> &m, unsigned depth) {
    unsigned n = 1 + r.below(4);
    for (unsigned i = 0; i < n; ++i) {
        std::string k = std::string(1, char('a' + r.below(6))) + (r.chance(1, 3) ? "x" : "");
        bool        dup = false;
        for (auto &e : m) dup = dup || e.first == k;
        if (dup) continue;
        NNode &node = t[Key((const char *)k.data(), SizeT(k.size()))]; // (const: the non-const overload adopts the buffer)
        MNode  mn;
        mn.tag   = "t" + std::to_string(r.below(1000)) + std::string(r.below(40), 'q'); // owning strings of several sizes
        node.Tag = String<char>((const char *)mn.tag.data(), SizeT(mn.tag.size()));
        if (depth > 0 && r.chance(2, 3)) nested_build(r, node.Kids, mn.kids, depth - 1);
        m.emplace_back(k, mn);
    }
}

static bool nested_same(const HArray<Key, NNode> &t, const std::vector<std::pair<std::string, MNode>> &m, std::string &why) {
    if (t.Size() != m.size()) return why = "size " + std::to_string(t.Size()) + " expected " + std::to_string(m.size()), false;
    for (size_t i = 0; i < m.size(); ++i) {
        const Key   *k = t.GetKey(SizeT(i));
        const NNode *v = t.GetValue(Key(m[i].first.data(), SizeT(m[i].first.size())));
        if (k == nullptr || v == nullptr) return why = "entry " + m[i].first + " missing", false;
        if (std::string(k->First() ? k->First() : "", k->Length()) != m[i].first) return why = "order differs at " + std::to_string(i), false;
        if (std::string(v->Tag.First() ? v->Tag.First() : "", v->Tag.Length()) != m[i].second.tag) return why = "payload of " + m[i].first, false;
        if (!nested_same(v->Kids, m[i].second.kids, why)) return false;
    }
    return true;
}

static void nested_case(uint64_t c) {
    vf::Rng                                     r(vf::g_seed, c);
    HArray<Key, NNode>                          root;
    std::vector<std::pair<std::string, MNode>>  model;
    nested_build(r, root, model, 3);
    std::string why;
    if (!nested_same(root, model, why)) {
        vf::fail("c13:nested:build", "%s", why.c_str());
        return;
    }
    for (int step = 0; step < 6 && !model.empty(); ++step) {
        // walk down to a random descendant that has children
        HArray<Key, NNode>                         *t = &root;
        std::vector<std::pair<std::string, MNode>> *m = &model;
        std::vector<std::pair<HArray<Key, NNode> *, std::vector<std::pair<std::string, MNode>> *>> path;
        path.emplace_back(t, m);
        for (;;) {
            std::vector<size_t> with;
            for (size_t i = 0; i < m->size(); ++i) {
                if (!(*m)[i].second.kids.empty()) with.push_back(i);
            }
            if (with.empty() || (path.size() > 1 && r.chance(1, 3))) break;
            size_t i = with[r.below(uint32_t(with.size()))];
            NNode *n = t->GetValue(Key((const char *)(*m)[i].first.data(), SizeT((*m)[i].first.size())));
            if (n == nullptr) {
                vf::fail("c13:nested:lookup", "step=%d", step);
                return;
            }
            t = &n->Kids;
            m = &(*m)[i].second.kids;
            path.emplace_back(t, m);
        }
        if (path.size() < 2) break;
        // assign the deepest table over one of its ancestors
        size_t anc = r.below(uint32_t(path.size() - 1));
        auto   snap = *path.back().second; // model copy first: the destination's old content contains the source
        bool   mv   = r.chance(1, 2);
        if (mv) *path[anc].first = Memory::Move(*path.back().first);
        else *path[anc].first = *path.back().first;
        *path[anc].second = snap;
        vf::count(mv ? "nested_move_from_descendant" : "nested_copy_from_descendant");
        if (!nested_same(root, model, why)) {
            vf::fail(mv ? "c13:nested:move-assign-from-descendant" : "c13:nested:copy-assign-from-descendant", "step=%d %s", step, why.c_str());
            return;
        }
    }
}

int main(int argc, char **argv) {
    vf::Args a = vf::parse_args(argc, argv);
    for (uint64_t c = a.from; c < a.to; ++c) {
        vf::begin_case(c);
        if (c % 16 == 7) {
            nested_case(c);
            vf::distinct(vf::mix(c) ^ vf::g_seed);
            vf::end_case();
            continue;
        }
        switch (c % 4) {
            case 0: history<HArray<Key, String<char>>, String<char>, true>(c, "HArray<String,String>"); break;
            case 1: history<HArray<Key, int>, int, true>(c, "HArray<String,int>"); break;
            case 2: history<HArray<Key, Array<String<char>>>, Array<String<char>>, true>(c, "HArray<String,Array<String>>"); break;
            default: history<HList<Key>, int, false>(c, "HList<String>");
        }
        vf::distinct(vf::mix(c) ^ vf::g_seed);
        if (vf::want_sample()) vf::sample("history #%" PRIu64 " on 3 %s tables, key pool kind %u", c, g_fam, unsigned((c / 4) % 5));
        vf::end_case();
    }
    return vf::finish(a);
}
