// C04: expression evaluation observed through ParseExpressions+Evaluate and through {math:}, {if ...}, <if ...>.
// Cases come from the python generator (ref/expr.py): fields = expression text, value JSON text.
// Output line per case:  <index> <kind> <value> | <math output hex> | <inline-if output hex> | <if output hex>
#ifndef VF_CHAR
#define VF_CHAR char
#endif
#include "vmodel.hpp"

#include "Template.hpp"

using namespace Qentem;
using C  = VF_CHAR;
using V  = Value<C>;
using SS = StringStream<C>;
using TC = TemplateCore<C, V, SS>;

static std::string narrow_hex(const SS &s) {
    std::string o;
    char        b[12];
    for (SizeT i = 0; i < s.Length(); ++i) {
        snprintf(b, sizeof(b), "%02x", unsigned(s.First()[i]) & 0xFFu);
        o += b;
    }
    return o.empty() ? "-" : o;
}

int main(int argc, char **argv) {
    vf::Args     a = vf::parse_args(argc, argv);
    vf::CaseFile cf(a.casefile);
    FILE        *out = fopen((a.outfile + "." + std::to_string(a.from)).c_str(), "w");
    if (!out) return 2;
    for (uint64_t c = a.from; c < a.to && c < cf.size(); ++c) {
        vf::begin_case(c);
        std::string          et = cf.str(c, 0), vt = cf.str(c, 1);
        std::basic_string<C> e = vm::widen<C>(et), vj = vm::widen<C>(vt);
        if (vf::g_verbose) fprintf(stderr, "TRACE expr=%s value=%s\n", et.c_str(), vt.c_str());
        {
            V value = JSON::Parse(vj.data(), SizeT(vj.size()));
            // (1) ParseExpressions + Evaluate on an exact-size copy
            const char *kind = "novalue";
            char        val[64] = "-";
            {
                vf::ExactBuf<C>     b(e.data(), e.size());
                Array<QExpression>  exprs = TC::ParseExpressions((const C *)b.p, SizeT(b.n));
                TC                  tc{(const C *)b.p, SizeT(b.n)};
                QExpression         result;
                if (exprs.IsNotEmpty() && tc.Evaluate(result, exprs, value)) {
                    switch (result.Type) {
                        case QExpression::ExpressionType::NaturalNumber:
                            kind = "natural";
                            snprintf(val, sizeof(val), "%llu", (unsigned long long)result.Value.Number.Natural);
                            break;
                        case QExpression::ExpressionType::IntegerNumber:
                            kind = "integer";
                            snprintf(val, sizeof(val), "%lld", (long long)result.Value.Number.Integer);
                            break;
                        case QExpression::ExpressionType::RealNumber: {
                            kind = "real";
                            uint64_t bits;
                            double   d = result.Value.Number.Real;
                            memcpy(&bits, &d, 8);
                            snprintf(val, sizeof(val), "%016llx", (unsigned long long)bits);
                            break;
                        }
                        default: kind = "other";
                    }
                }
            }
            // (2) rendered forms
            auto render = [&](const std::basic_string<C> &tpl) {
                SS              o;
                vf::ExactBuf<C> b(tpl.data(), tpl.size());
                Template::Render((const C *)b.p, SizeT(b.n), value, o);
                return narrow_hex(o);
            };
            std::string m  = render(vm::widen<C>("{math:") + e + vm::widen<C>("}"));
            std::string i1 = render(vm::widen<C>("{if case=\"") + e + vm::widen<C>("\" true=\"T\" false=\"F\"}"));
            std::string i2 = render(vm::widen<C>("<if case='") + e + vm::widen<C>("'>Y<else>N</if>"));
            fprintf(out, "%" PRIu64 " %s %s | %s | %s | %s\n", c, kind, val, m.c_str(), i1.c_str(), i2.c_str());
            vf::count("expressions");
        }
        vf::end_case(true);
    }
    fclose(out);
    return vf::finish(a);
}
