// C12: Value<Char_T> against the abstract document model after every step of random operation histories.
// Also serves C16 (ledger + ASan on every history) and provides the trees for C08 (--opt mode=c08).
#ifndef VF_CHAR
#define VF_CHAR char
#endif
#include "vmodel.hpp"

using namespace Qentem;
using namespace vm;
using C  = VF_CHAR;
using V  = Value<C>;
using M  = MV<C>;
using S  = std::basic_string<C>;
using St = String<C>;

static const char *opname = "init";
static unsigned    g_step = 0;
#define STEP(name)                                                                     \
    do {                                                                               \
        opname = (name);                                                               \
        if (vf::g_verbose) fprintf(stderr, "TRACE step %u: %s\n", g_step, opname);     \
        vf::g_counters[std::string("op_") + opname] += 1;                              \
    } while (0)

static std::string fkey(const char *what) {
    return std::string("c12:") + opname + ":" + what;
}

struct Place {
    V *v;
    M *m;
    unsigned root;
    unsigned depth;
};

// descend through defined members without mutating anything
static Place pick_place(vf::Rng &r, V *roots, M *models, unsigned root, unsigned max_down) {
    Place p{&roots[root], &models[root], root, 0};
    for (unsigned d = 0; d < max_down; ++d) {
        if (p.m->k == K::Obj) {
            std::vector<size_t> c;
            for (size_t i = 0; i < p.m->obj.size(); ++i) {
                if (p.m->obj[i].live && p.m->obj[i].val.k != K::Undef && p.m->obj[i].val.k != K::Ptr) c.push_back(i);
            }
            if (c.empty() || r.chance(1, 3)) break;
            auto &mm = p.m->obj[c[r.below(uint32_t(c.size()))]];
            V    *nv = p.v->GetValue(mm.key.data(), SizeT(mm.key.size()));
            if (nv == nullptr) break;
            p.v = nv;
            p.m = &mm.val;
            ++p.depth;
        } else if (p.m->k == K::Arr) {
            std::vector<size_t> c;
            for (size_t i = 0; i < p.m->arr.size(); ++i) {
                if (p.m->arr[i].k != K::Undef && p.m->arr[i].k != K::Ptr) c.push_back(i);
            }
            if (c.empty() || r.chance(1, 3)) break;
            size_t i  = c[r.below(uint32_t(c.size()))];
            V     *nv = p.v->GetValue(SizeT(i));
            if (nv == nullptr) break;
            p.v = nv;
            p.m = &p.m->arr[i];
            ++p.depth;
        } else {
            break;
        }
    }
    return p;
}

struct NumStr {
    const char *text;
    int         kind; // 0 NaN, 1 natural, 2 integer, 3 real
    double      val;
};
static const NumStr kNumStrs[] = {{"123", 1, 123}, {"-5", 2, -5}, {"1.5", 3, 1.5}, {"1e3", 3, 1000}, {"abc", 0, 0}, {"12x", 0, 0}, {" 1", 0, 0}, {"", 0, 0},
                                  {"0", 1, 0}, {"true", 0, 0}, {"false", 0, 0}, {"-0.25", 3, -0.25}, {"18446744073709551615", 1, 18446744073709551615.0}};

// getters asked for a kind the value does not have answer "nothing" (null / 0 / empty view), and for the kind it has, the content
static void check_kind_getters(const V &v, const M &mraw) {
    const M   &m     = mraw.eff();
    const bool isobj = m.k == K::Obj, isarr = m.k == K::Arr, isstr = m.k == K::Str;
    V         &mv    = const_cast<V &>(v); // the non-const overloads only hand out pointers; nothing is written through them
    const bool ptr   = mraw.k == K::Ptr; // (Value::IsPointerToValue() does not compile when instantiated: isPtrValue() is declared void)
    if ((v.GetObject() != nullptr) != isobj) vf::fail(fkey("getter:GetObject").c_str(), "kind=%s", kname(m.k));
    if ((v.GetArray() != nullptr) != isarr) vf::fail(fkey("getter:GetArray").c_str(), "kind=%s", kname(m.k));
    if ((v.GetString() != nullptr) != isstr) vf::fail(fkey("getter:GetString").c_str(), "kind=%s", kname(m.k));
    if (!ptr) { // (the non-const overloads do not look through a pointer-to-value: that is their documented difference)
        if ((mv.GetObject() != nullptr) != isobj) vf::fail(fkey("getter:GetObject-mutable").c_str(), "kind=%s", kname(m.k));
        if ((mv.GetArray() != nullptr) != isarr) vf::fail(fkey("getter:GetArray-mutable").c_str(), "kind=%s", kname(m.k));
        if ((mv.GetString() != nullptr) != isstr) vf::fail(fkey("getter:GetString-mutable").c_str(), "kind=%s", kname(m.k));
    }
    if (!isstr) {
        if (v.Length() != 0 || v.StringStorage() != nullptr || v.GetStringView().Length() != 0) vf::fail(fkey("getter:string-accessors-on-non-string").c_str(), "kind=%s", kname(m.k));
    } else {
        auto sv = v.GetStringView();
        if (v.Length() != m.s.size() || sv.Length() != m.s.size() || (m.s.size() && memcmp(sv.First(), m.s.data(), m.s.size() * sizeof(C)) != 0) ||
            (m.s.size() && memcmp(v.StringStorage(), m.s.data(), m.s.size() * sizeof(C)) != 0))
            vf::fail(fkey("getter:string-accessors").c_str(), "length=%u expected=%zu", unsigned(v.Length()), m.s.size());
    }
    if (!isobj && v.GetKey(0) != nullptr) vf::fail(fkey("getter:GetKey-on-non-object").c_str(), "kind=%s", kname(m.k));
    if (!isobj && !isarr && (v.GetValue(0) != nullptr || v.Size() != 0)) vf::fail(fkey("getter:GetValue-on-scalar").c_str(), "kind=%s", kname(m.k));
    vf::count("kind_getter_checks");
}

static void check_coercions(const V &v, const M &mraw) {
    check_kind_getters(v, mraw);
    const M  &m = mraw.eff();
    QNumber64 n;
    n.Natural       = 0;
    QNumberType t   = v.SetNumber(n);
    bool        b   = false;
    bool        hb  = v.SetBool(b);
    vf::count("coercion_checks");
    switch (m.k) {
        case K::U64:
            if (t != QNumberType::Natural || n.Natural != m.u) vf::fail(fkey("coercion:uint-SetNumber").c_str(), "v=%" PRIu64, m.u);
            if (!hb || b != (m.u > 0)) vf::fail(fkey("coercion:uint-SetBool").c_str(), "v=%" PRIu64, m.u);
            if (v.GetInt64() != int64_t(m.u)) vf::fail(fkey("coercion:uint-GetInt64").c_str(), "v=%" PRIu64, m.u);
            if (v.GetUInt64() != m.u) vf::fail(fkey("coercion:uint-GetUInt64").c_str(), "v=%" PRIu64, m.u);
            if (v.GetDouble() != double(m.u) || v.GetNumber() != double(m.u)) vf::fail(fkey("coercion:uint-GetDouble").c_str(), "v=%" PRIu64 " got=%.17g", m.u, v.GetDouble());
            break;
        case K::I64:
            if (t != QNumberType::Integer || n.Integer != m.i) vf::fail(fkey("coercion:int-SetNumber").c_str(), "v=%" PRId64, m.i);
            if (!hb || b != (m.i > 0)) vf::fail(fkey("coercion:int-SetBool").c_str(), "v=%" PRId64, m.i);
            if (v.GetUInt64() != uint64_t(m.i)) vf::fail(fkey("coercion:int-GetUInt64").c_str(), "v=%" PRId64, m.i);
            if (v.GetInt64() != m.i) vf::fail(fkey("coercion:int-GetInt64").c_str(), "v=%" PRId64, m.i);
            if (v.GetDouble() != double(m.i) || v.GetNumber() != double(m.i)) vf::fail(fkey("coercion:int-GetDouble").c_str(), "v=%" PRId64 " got=%.17g", m.i, v.GetDouble());
            break;
        case K::Dbl:
            if (t != QNumberType::Real || memcmp(&n.Real, &m.d, 8) != 0) vf::fail(fkey("coercion:double-SetNumber").c_str(), "v=%.17g", m.d);
            if (!hb || b != (m.d > 0)) vf::fail(fkey("coercion:double-SetBool").c_str(), "v=%.17g", m.d);
            if (std::fabs(m.d) < 9e18 && v.GetInt64() != int64_t(m.d)) vf::fail(fkey("coercion:double-GetInt64").c_str(), "v=%.17g", m.d);
            // (a double read as unsigned: the integral part for 0 <= d < 2^63; other ranges are not pinned down)
            if (m.d >= 0 && m.d < 9e18 && v.GetUInt64() != uint64_t(m.d)) vf::fail(fkey("coercion:double-GetUInt64").c_str(), "v=%.17g got=%" PRIu64, m.d, uint64_t(v.GetUInt64()));
            {
                double g1 = v.GetDouble(), g2 = v.GetNumber();
                if (memcmp(&g1, &m.d, 8) != 0 || memcmp(&g2, &m.d, 8) != 0) vf::fail(fkey("coercion:double-GetDouble").c_str(), "v=%.17g got=%.17g", m.d, g1);
            }
            break;
        case K::True:
            if (t != QNumberType::Natural || n.Natural != 1 || !hb || !b || v.GetDouble() != 1.0 || v.GetUInt64() != 1) vf::fail(fkey("coercion:true").c_str(), "t=%d", int(t));
            break;
        case K::False:
        case K::Null:
            if (t != QNumberType::Natural || n.Natural != 0 || !hb || b || v.GetDouble() != 0.0 || v.GetInt64() != 0) vf::fail(fkey("coercion:false-null").c_str(), "t=%d", int(t));
            break;
        case K::Str: {
            std::string a;
            bool        ascii = true;
            for (C ch : m.s) {
                if (unsigned(ch) > 0x7E) ascii = false;
                a += char(ch);
            }
            if (!ascii) break;
            for (const NumStr &ns : kNumStrs) {
                if (a != ns.text) continue;
                static const QNumberType map[] = {QNumberType::NotANumber, QNumberType::Natural, QNumberType::Integer, QNumberType::Real};
                if (t != map[ns.kind]) vf::fail(fkey("coercion:string-SetNumber-kind").c_str(), "text=%s kind=%d expected=%d", ns.text, int(t), ns.kind);
                else if (ns.kind != 0 && v.GetDouble() != ns.val) vf::fail(fkey("coercion:string-GetDouble").c_str(), "text=%s got=%.17g", ns.text, v.GetDouble());
                else if (ns.kind != 0 && std::fabs(ns.val) < 9e15 && v.GetInt64() != int64_t(ns.val)) vf::fail(fkey("coercion:string-GetInt64").c_str(), "text=%s got=%" PRId64, ns.text, int64_t(v.GetInt64()));
                else if (ns.kind != 0 && ns.val >= 0 && ns.val < 9e15 && v.GetUInt64() != uint64_t(ns.val)) vf::fail(fkey("coercion:string-GetUInt64").c_str(), "text=%s got=%" PRIu64, ns.text, uint64_t(v.GetUInt64()));
                else if (ns.kind == 0 && (v.GetDouble() != 0.0 || v.GetUInt64() != 0)) vf::fail(fkey("coercion:string-nonnumeric-not-zero").c_str(), "text=%s", ns.text);
                bool eb = (a == "true"), ehb = (a == "true" || a == "false");
                if (hb != ehb || (ehb && b != eb)) vf::fail(fkey("coercion:string-SetBool").c_str(), "text=%s", ns.text);
            }
            break;
        }
        case K::Obj:
        case K::Arr:
        case K::Undef:
            if (t != QNumberType::NotANumber || hb || v.GetDouble() != 0.0 || v.GetUInt64() != 0 || v.GetInt64() != 0) vf::fail(fkey("coercion:container-or-undefined").c_str(), "kind=%s", kname(m.k));
            break;
        default: break;
    }
}

static void walk_coercions(const V &v, const M &mraw, vf::Rng &r) {
    const M &m = mraw.eff();
    check_coercions(v, mraw);
    if (m.k == K::Obj) {
        for (auto &mm : m.obj) {
            if (!mm.live || mm.val.eff().k == K::Undef) continue;
            const V *c = v.GetValue(mm.key.data(), SizeT(mm.key.size()));
            if (c != nullptr && r.chance(1, 2)) walk_coercions(*c, mm.val, r);
        }
    } else if (m.k == K::Arr) {
        for (size_t i = 0; i < m.arr.size(); ++i) {
            const V *c = v.GetValue(SizeT(i));
            if (c != nullptr && r.chance(1, 2)) walk_coercions(*c, m.arr[i], r);
        }
    }
}

// ------------------------------------------------------------------ C08: Stringify(17) -> Parse -> compare, fixed point, text for python
static FILE *g_c08_out  = nullptr;
static bool  g_c08      = false;

static bool num_value(const M &m, long double &out) {
    switch (m.k) {
        case K::U64: out = (long double)m.u; return true;
        case K::I64: out = (long double)m.i; return true;
        case K::Dbl: out = (long double)m.d; return true;
        default: return false;
    }
}

static std::string hexs(const S &t) {
    std::string o;
    char        b[12];
    for (C ch : t) {
        snprintf(b, sizeof(b), sizeof(C) == 1 ? "%02x" : (sizeof(C) == 2 ? "%04x" : "%08x"), unsigned(ch) & (sizeof(C) == 1 ? 0xFFu : (sizeof(C) == 2 ? 0xFFFFu : 0xFFFFFFFFu)));
        o += b;
    }
    return o;
}

// canonical dump of the DEFINED content of the model (what the text must denote)
static void model_dump(const M &mraw, std::string &o) {
    const M &m = mraw.eff();
    char     b[64];
    switch (m.k) {
        case K::Obj:
            o += '{';
            for (auto &mm : m.obj) {
                if (!mm.live || mm.val.eff().k == K::Undef) continue;
                o += 'K';
                o += hexs(mm.key);
                o += ':';
                model_dump(mm.val, o);
                o += ',';
            }
            o += '}';
            break;
        case K::Arr:
            o += '[';
            for (auto &e : m.arr) {
                if (e.eff().k == K::Undef) continue;
                model_dump(e, o);
                o += ',';
            }
            o += ']';
            break;
        case K::Str: o += 'S'; o += hexs(m.s); break;
        case K::U64: snprintf(b, sizeof(b), "U%llu", (unsigned long long)m.u); o += b; break;
        case K::I64: snprintf(b, sizeof(b), "I%lld", (long long)m.i); o += b; break;
        case K::Dbl: {
            uint64_t bits;
            memcpy(&bits, &m.d, 8);
            snprintf(b, sizeof(b), "D%016llx", (unsigned long long)bits);
            o += b;
            break;
        }
        case K::True: o += 'T'; break;
        case K::False: o += 'F'; break;
        case K::Null: o += 'N'; break;
        default: o += '?';
    }
}

static bool cmp_defined(const V &p, const M &mraw, std::string &why) {
    const M &m = mraw.eff();
    switch (m.k) {
        case K::Obj: {
            if (!p.IsObject()) return why = "expected object", false;
            SizeT pi = 0;
            for (auto &mm : m.obj) {
                if (!mm.live || mm.val.eff().k == K::Undef) continue;
                const St *k = nullptr;
                while (pi < p.Size() && (k = p.GetKey(pi)) == nullptr) ++pi;
                if (pi >= p.Size() || k == nullptr) return why = "parsed object lacks a member", false;
                if (k->Length() != mm.key.size() || (mm.key.size() && memcmp(k->First(), mm.key.data(), mm.key.size() * sizeof(C)) != 0)) return why = "member key differs", false;
                const V *c = p.GetValue(pi);
                if (c == nullptr) return why = "parsed member undefined", false;
                if (!cmp_defined(*c, mm.val, why)) return false;
                ++pi;
            }
            while (pi < p.Size()) {
                if (p.GetKey(pi) != nullptr) return why = "parsed object has an extra member", false;
                ++pi;
            }
            return true;
        }
        case K::Arr: {
            if (!p.IsArray()) return why = "expected array", false;
            SizeT pi = 0;
            for (auto &e : m.arr) {
                if (e.eff().k == K::Undef) continue;
                const V *c = p.GetValue(pi);
                if (c == nullptr) return why = "parsed array too short", false;
                if (!cmp_defined(*c, e, why)) return false;
                ++pi;
            }
            if (pi != p.Size()) return why = "parsed array too long", false;
            return true;
        }
        case K::Str: {
            const C *q;
            SizeT    n;
            if (!p.IsString() || !p.SetCharAndLength(q, n) || n != m.s.size() || (n && memcmp(q, m.s.data(), n * sizeof(C)) != 0)) return why = "string differs", false;
            return true;
        }
        case K::U64:
        case K::I64:
        case K::Dbl: {
            long double a = 0, b = 0;
            num_value(m, a);
            if (!p.IsNumber()) return why = "expected number", false;
            if (p.IsUInt64()) b = (long double)p.GetUInt64();
            else if (p.IsInt64()) b = (long double)p.GetInt64();
            else b = (long double)p.GetDouble();
            if (!(a == b)) {
                char t[160];
                snprintf(t, sizeof(t), "number differs: model %.21Lg parsed %.21Lg (%s)", a, b, kname(m.k));
                return why = t, false;
            }
            return true;
        }
        case K::True: return p.IsTrue() ? true : (why = "expected true", false);
        case K::False: return p.IsFalse() ? true : (why = "expected false", false);
        case K::Null: return p.IsNull() ? true : (why = "expected null", false);
        default: return why = "internal", false;
    }
}

static void c08_check(const V &v, const M &mraw, bool wellformed, uint64_t c) {
    const M &m = mraw.eff();
    if (m.k != K::Obj && m.k != K::Arr) return; // a top-level scalar prints nothing
    const char *keep = opname;
    opname           = "c08";
    StringStream<C> s1;
    v.Stringify(s1, 17U);
    vf::count("c08_trees");
    vf::count("c08_nodes", m.nodes());
    {
        vf::ExactBuf<C> buf(s1.First(), s1.Length());
        V               p = JSON::Parse(buf.p, SizeT(buf.n));
        if (p.IsUndefined()) {
            vf::fail("c08:reparse-rejected", "text=%s", vf::show(s1.First(), s1.Length(), 400).c_str());
        } else {
            std::string why;
            if (!cmp_defined(p, mraw, why)) {
                std::string key = "c08:roundtrip-differs";
                if (why.compare(0, 6, "number") == 0) key += ":number";
                else if (why.compare(0, 6, "string") == 0 || why.find("key") != std::string::npos) key += ":string";
                else key += ":structure";
                vf::fail(key.c_str(), "%s text=%s", why.c_str(), vf::show(s1.First(), s1.Length(), 400).c_str());
            }
            StringStream<C> s2;
            p.Stringify(s2, 17U);
            if (!(s2 == s1)) vf::fail("c08:not-a-fixed-point", "first=%s second=%s", vf::show(s1.First(), s1.Length(), 300).c_str(), vf::show(s2.First(), s2.Length(), 300).c_str());
        }
    }
    if (g_c08_out != nullptr && sizeof(C) == 1 && wellformed) {
        std::string d;
        model_dump(mraw, d);
        fprintf(g_c08_out, "%" PRIu64 " %s %s\n", c, vf::hex(s1.First(), s1.Length() * sizeof(C), 1u << 20).c_str(), d.c_str());
        vf::count("c08_texts_for_python");
    }
    opname = keep;
}

static const unsigned NR = 4; // roots 0..2 ordinary, root 3 is the pointer target (never holds a pointer)

static void assign_payload(vf::Rng &r, Gen<C> &g, V &tv, M &tm, unsigned pool) {
    switch (r.below(16)) {
        case 0: {
            STEP("assign-uint");
            uint64_t x = g.u64();
            tv         = (unsigned long long)x;
            tm         = M::U(x);
            break;
        }
        case 1: {
            STEP("assign-int");
            int64_t x = g.i64();
            tv        = (long long)x;
            tm        = M::I(x);
            break;
        }
        case 2: {
            STEP("assign-double");
            double x = g.dbl();
            tv       = x;
            tm       = M::D(x);
            break;
        }
        case 3: {
            STEP("assign-narrow-numbers");
            switch (r.below(4)) {
                case 0: tv = (unsigned int)7; tm = M::U(7); break;
                case 1: tv = (int)-7; tm = M::I(-7); break;
                case 2: tv = (short)-3; tm = M::I(-3); break;
                default: tv = 2.5f; tm = M::D(2.5);
            }
            break;
        }
        case 4: STEP("assign-bool"); if (r.chance(1, 2)) { tv = true; tm = M::Kind(K::True); } else { tv = false; tm = M::Kind(K::False); } break;
        case 5: STEP("assign-null"); tv = nullptr; tm = M::Kind(K::Null); break;
        case 6: {
            const NumStr &ns = kNumStrs[r.below(sizeof(kNumStrs) / sizeof(kNumStrs[0]))];
            S             t  = widen<C>(ns.text);
            STEP("assign-literal");
            tv = t.c_str();
            tm = M::Str(t);
            break;
        }
        case 7: {
            S t = g.text(true);
            switch (r.below(5)) {
                case 0: STEP("assign-string-move"); tv = St((const C *)t.data(), SizeT(t.size())); break;
                case 1: {
                    STEP("assign-string-copy");
                    St s((const C *)t.data(), SizeT(t.size()));
                    tv = s;
                    break;
                }
                case 2: {
                    STEP("assign-string-pointer");
                    St        s((const C *)t.data(), SizeT(t.size()));
                    const St *cp = &s;
                    if (r.chance(1, 2)) tv = cp;
                    else tv = &s;
                    break;
                }
                case 3: {
                    STEP("assign-string-view");
                    StringView<C> sv(t.data(), SizeT(t.size()));
                    tv = sv;
                    break;
                }
                default: {
                    STEP("construct-from-range");
                    V tmp(t.data(), SizeT(t.size()));
                    tv = Memory::Move(tmp);
                }
            }
            tm = M::Str(t);
            break;
        }
        case 8:
        case 9: {
            // array object (ArrayT) copy / move
            typename V::ArrayT a;
            M                  am = M::Kind(K::Arr);
            unsigned           n  = r.below(4);
            for (unsigned i = 0; i < n; ++i) {
                V e;
                M em;
                g.tree(e, em, 1, false, pool);
                a += Memory::Move(e);
                am.arr.push_back(em);
            }
            if (r.chance(1, 2)) {
                STEP("assign-array-move");
                tv = Memory::Move(a);
            } else {
                STEP("assign-array-copy");
                tv = a;
            }
            tm = am;
            break;
        }
        case 10:
        case 11: {
            typename V::ObjectT o;
            M                   om = M::Kind(K::Obj);
            unsigned            n  = r.below(4);
            for (unsigned i = 0; i < n; ++i) {
                V e;
                M em;
                g.tree(e, em, 1, false, pool);
                S kk = g.key(pool);
                o.Insert(St((const C *)kk.data(), SizeT(kk.size())), Memory::Move(e));
                om.upsert(kk) = em;
            }
            if (r.chance(1, 2)) {
                STEP("assign-object-move");
                tv = Memory::Move(o);
            } else {
                STEP("assign-object-copy");
                tv = o;
            }
            tm = om;
            break;
        }
        default: {
            STEP("assign-tree");
            V e;
            M em;
            g.tree(e, em, 2, true, pool);
            if (r.chance(1, 2)) tv = Memory::Move(e);
            else tv = e;
            tm = em;
        }
    }
}

static void history(uint64_t c) {
    vf::Rng  r(vf::g_seed, c);
    Gen<C>   g(r);
    unsigned pool = unsigned(c % 3);
    {
        V        R[NR];
        M        RM[NR];
        unsigned steps = r.range(15, 120);
        for (g_step = 0; g_step < steps; ++g_step) {
            unsigned x  = r.below(NR), y = r.below(NR);
            Place    p  = pick_place(r, R, RM, x, 2);
            V       &tv = *p.v;
            M       &tm = *p.m;
            bool     ptr_ok = (x != 3); // root 3 must stay pointer-free
            unsigned op = r.below(44);
            switch (op) {
                case 0: case 1: case 2: case 3: case 4: case 5: assign_payload(r, g, tv, tm, pool); break;
                case 6: case 7: {
                    // copy from another root (deep, independent)
                    if (x == y || (RM[y].contains_ptr() && !ptr_ok)) break;
                    STEP("assign-value-copy");
                    M snap = RM[y];
                    tv     = R[y];
                    tm     = snap;
                    break;
                }
                case 8: {
                    if (x == y || (RM[y].contains_ptr() && !ptr_ok) || y == 3) break;
                    STEP("assign-value-move");
                    M snap = RM[y];
                    tv     = Memory::Move(R[y]);
                    tm     = snap;
                    RM[y].reset();
                    break;
                }
                case 9: {
                    STEP(p.depth == 0 ? "assign-value-copy-self" : "assign-value-copy-self-nested");
                    V &self = tv;
                    tv      = self;
                    break;
                }
                case 10: {
                    // copy from a descendant of the target ( v = v["k"] )
                    Place q = pick_place(r, p.v, p.m, 0, 2);
                    if (q.depth == 0 || tm.contains_ptr()) break;
                    STEP("assign-value-copy-from-own-descendant");
                    M snap = *q.m;
                    tv     = *q.v;
                    tm     = snap;
                    break;
                }
                case 11: {
                    if ((RM[y].contains_ptr() && !ptr_ok)) break;
                    STEP("copy-construct");
                    V t(R[y]);
                    Cmp<C> cm;
                    if (!cm.eq(t, RM[y])) vf::fail(fkey("copy-differs").c_str(), "%s", cm.why.c_str());
                    M snap = RM[y];
                    tv     = Memory::Move(t);
                    tm     = snap;
                    break;
                }
                case 12: {
                    if (x == y || y == 3 || (RM[y].contains_ptr() && !ptr_ok)) break;
                    STEP("move-construct");
                    V t(Memory::Move(R[y]));
                    if (!R[y].IsUndefined() || R[y].Type() != ValueType::Undefined) vf::fail(fkey("moved-from-not-undefined").c_str(), "root=%u", y);
                    M snap = RM[y];
                    RM[y].reset();
                    tv = Memory::Move(t);
                    tm = snap;
                    break;
                }
                case 13: case 14: case 15: case 16: {
                    S  kk = g.key(pool);
                    V *ref;
                    switch (r.below(6)) {
                        case 0:
                            if (kk.find(C(0)) == S::npos) {
                                STEP("subscript-literal");
                                ref = &tv[kk.c_str()];
                                break;
                            }
                            // fallthrough
                        case 1: STEP("subscript-string-move"); ref = &tv[St((const C *)kk.data(), SizeT(kk.size()))]; break;
                        case 2: {
                            STEP("subscript-string-copy");
                            St ks((const C *)kk.data(), SizeT(kk.size()));
                            ref = &tv[ks];
                            break;
                        }
                        case 3: {
                            STEP("subscript-view");
                            StringView<C> sv(kk.data(), SizeT(kk.size()));
                            ref = &tv[sv];
                            break;
                        }
                        case 4: STEP("get-ptr-len"); ref = &tv.Get(kk.data(), SizeT(kk.size())); break;
                        default: {
                            STEP("get-view");
                            StringView<C> sv(kk.data(), SizeT(kk.size()));
                            ref = &tv.Get(sv);
                        }
                    }
                    tm.make_obj();
                    M &mm = tm.upsert(kk);
                    if (r.chance(3, 4)) {
                        const char *keep = opname;
                        assign_payload(r, g, *ref, mm, pool);
                        opname = keep;
                    }
                    break;
                }
                case 17: {
                    STEP("insert-view-value");
                    S  kk = g.key(pool);
                    V  e;
                    M  em;
                    g.tree(e, em, 1, true, pool);
                    StringView<C> sv(kk.data(), SizeT(kk.size()));
                    tv.Insert(sv, Memory::Move(e));
                    tm.make_obj();
                    tm.upsert(kk) = em;
                    break;
                }
                case 18: case 19: case 20: {
                    // subscript by index
                    unsigned idx;
                    if (tm.k == K::Arr) {
                        idx = r.below(unsigned(tm.arr.size()) + 4);
                        STEP(idx < tm.arr.size() ? "index-existing" : (idx == tm.arr.size() ? "index-append" : "index-extend"));
                        V &ref = (r.chance(1, 2) ? tv[SizeT(idx)] : tv[int(idx)]);
                        if (idx >= tm.arr.size()) tm.arr.resize(idx + 1);
                        if (r.chance(3, 4)) {
                            const char *keep = opname;
                            assign_payload(r, g, ref, tm.arr[idx], pool);
                            opname = keep;
                        }
                    } else if (tm.k == K::Obj) {
                        if (tm.has_removed()) break;
                        idx = r.below(unsigned(tm.obj.size()) + 3);
                        if (idx < tm.obj.size()) {
                            STEP("index-into-object-member");
                            V &ref = tv[SizeT(idx)];
                            if (r.chance(1, 2)) {
                                const char *keep = opname;
                                assign_payload(r, g, ref, tm.obj[idx].val, pool);
                                opname = keep;
                            }
                        } else {
                            STEP("index-turns-object-into-array");
                            tv[SizeT(idx)];
                            tm.reset();
                            tm.k = K::Arr;
                            tm.arr.resize(idx + 1);
                        }
                    } else {
                        idx = r.below(4);
                        STEP("index-turns-scalar-into-array");
                        V &ref = tv[SizeT(idx)];
                        tm.reset();
                        tm.k = K::Arr;
                        tm.arr.resize(idx + 1);
                        if (r.chance(1, 2)) {
                            const char *keep = opname;
                            assign_payload(r, g, ref, tm.arr[idx], pool);
                            opname = keep;
                        }
                    }
                    break;
                }
                case 21: case 22: case 23: {
                    // += value (copy / move) from another root
                    if (y == x) {
                        if (tm.k != K::Arr) break; // self-append is generated for arrays only (see DESIGN.md C12 S)
                        STEP("append-value-copy-self");
                        M snap = tm;
                        tv += tv;
                        tm.make_arr();
                        tm.arr.push_back(snap);
                        break;
                    }
                    if (RM[y].contains_ptr() && !ptr_ok) break;
                    bool mv = r.chance(1, 2) && y != 3;
                    STEP(mv ? "append-value-move" : "append-value-copy");
                    M snap = RM[y];
                    if (mv) tv += Memory::Move(R[y]);
                    else tv += R[y];
                    if (tm.k == K::Obj && snap.k == K::Obj) {
                        tm.merge_obj(snap);
                    } else {
                        tm.make_arr();
                        tm.arr.push_back(snap);
                    }
                    if (mv) RM[y].reset();
                    break;
                }
                case 24: case 25: {
                    // += ObjectT / ArrayT
                    if (r.chance(1, 2)) {
                        typename V::ObjectT o;
                        M                   om = M::Kind(K::Obj);
                        unsigned            n  = r.below(4);
                        for (unsigned i = 0; i < n; ++i) {
                            V e;
                            M em;
                            g.tree(e, em, 1, false, pool);
                            S kk = g.key(pool);
                            o.Insert(St((const C *)kk.data(), SizeT(kk.size())), Memory::Move(e));
                            om.upsert(kk) = em;
                        }
                        bool mv = r.chance(1, 2);
                        STEP(mv ? "append-object-move" : "append-object-copy");
                        if (mv) tv += Memory::Move(o);
                        else tv += o;
                        if (tm.k == K::Obj) {
                            tm.merge_obj(om);
                        } else {
                            tm.make_arr();
                            tm.arr.push_back(om);
                        }
                    } else {
                        typename V::ArrayT a;
                        M                  am = M::Kind(K::Arr);
                        unsigned           n  = r.below(4);
                        for (unsigned i = 0; i < n; ++i) {
                            V e;
                            M em;
                            g.tree(e, em, 1, false, pool);
                            a += Memory::Move(e);
                            am.arr.push_back(em);
                        }
                        bool mv = r.chance(1, 2);
                        STEP(n == 0 ? "append-empty-array" : (mv ? "append-array-move" : "append-array-copy"));
                        if (mv) tv += Memory::Move(a);
                        else tv += a;
                        tm.make_arr();
                        if (n == 0) tm.arr.push_back(am);
                        else tm.arr.insert(tm.arr.end(), am.arr.begin(), am.arr.end());
                    }
                    break;
                }
                case 26: case 27: {
                    // += scalar
                    tm.make_arr();
                    switch (r.below(8)) {
                        case 0: {
                            STEP("append-string-move");
                            S t = g.text(true);
                            tv += St((const C *)t.data(), SizeT(t.size()));
                            tm.arr.push_back(M::Str(t));
                            break;
                        }
                        case 1: {
                            STEP("append-string-copy");
                            S  t = g.text(true);
                            St s((const C *)t.data(), SizeT(t.size()));
                            tv += s;
                            tm.arr.push_back(M::Str(t));
                            break;
                        }
                        case 2: {
                            STEP("append-view");
                            S             t = g.text(true);
                            StringView<C> sv(t.data(), SizeT(t.size()));
                            tv += sv;
                            tm.arr.push_back(M::Str(t));
                            break;
                        }
                        case 3: {
                            STEP("append-literal");
                            S t = widen<C>("lit");
                            tv += t.c_str();
                            tm.arr.push_back(M::Str(t));
                            break;
                        }
                        case 4: {
                            STEP("append-number");
                            uint64_t u = g.u64();
                            tv += (unsigned long long)u;
                            tm.arr.push_back(M::U(u));
                            int64_t i = g.i64();
                            tv += (long long)i;
                            tm.arr.push_back(M::I(i));
                            double d = g.dbl();
                            tv += d;
                            tm.arr.push_back(M::D(d));
                            break;
                        }
                        case 5: STEP("append-null"); tv += nullptr; tm.arr.push_back(M::Kind(K::Null)); break;
                        case 6: STEP("append-bool"); tv += true; tm.arr.push_back(M::Kind(K::True)); tv += false; tm.arr.push_back(M::Kind(K::False)); break;
                        default: {
                            STEP("append-int");
                            tv += 42;
                            tm.arr.push_back(M::I(42));
                        }
                    }
                    break;
                }
                case 28: case 29: {
                    if (x == y) break;
                    if (RM[y].contains_ptr() && !ptr_ok) break;
                    bool mv = r.chance(1, 2) && y != 3;
                    STEP(mv ? "merge-move" : "merge-copy");
                    M snap = RM[y];
                    if (mv) tv.Merge(Memory::Move(R[y]));
                    else tv.Merge(R[y]);
                    if (tm.k == K::Undef) tm.k = K::Arr;
                    if (tm.k == K::Arr && snap.k == K::Arr) {
                        for (auto &e : snap.arr) {
                            if (e.k != K::Undef) tm.arr.push_back(e);
                        }
                    } else if (tm.k == K::Obj && snap.k == K::Obj) {
                        tm.merge_obj(snap);
                    }
                    if (mv) {
                        RM[y].reset();
                        if (!R[y].IsUndefined()) vf::fail(fkey("source-not-reset").c_str(), "root=%u", y);
                    }
                    break;
                }
                case 30: case 31: case 32: {
                    S kk = g.key(pool);
                    if (tm.k == K::Obj && !tm.obj.empty() && r.chance(2, 3)) kk = tm.obj[r.below(uint32_t(tm.obj.size()))].key;
                    int mi = tm.k == K::Obj ? tm.find(kk) : -1;
                    switch (r.below(3)) {
                        case 0:
                            if (kk.find(C(0)) == S::npos) {
                                STEP("remove-literal");
                                tv.Remove(kk.c_str());
                                break;
                            }
                            // fallthrough
                        case 1: STEP("remove-ptr-len"); tv.Remove(kk.data(), SizeT(kk.size())); break;
                        default: {
                            STEP("remove-string");
                            St ks((const C *)kk.data(), SizeT(kk.size()));
                            tv.Remove(ks);
                        }
                    }
                    if (mi >= 0) {
                        tm.obj[size_t(mi)].live = false;
                        tm.obj[size_t(mi)].val.reset();
                    }
                    break;
                }
                case 33: {
                    if (tm.k == K::Arr) {
                        STEP("remove-index-array");
                        unsigned i = r.below(unsigned(tm.arr.size()) + 2);
                        if (r.chance(1, 2)) tv.RemoveIndex(SizeT(i));
                        else tv.RemoveIndex(int(i));
                        if (i < tm.arr.size()) tm.arr[i].reset();
                    } else if (tm.k == K::Obj && !tm.has_removed()) {
                        STEP("remove-index-object");
                        unsigned i = r.below(unsigned(tm.obj.size()) + 2);
                        tv.RemoveIndex(SizeT(i));
                        if (i < tm.obj.size()) {
                            tm.obj[i].live = false;
                            tm.obj[i].val.reset();
                        }
                    } else if (tm.k != K::Obj) {
                        STEP("remove-index-scalar");
                        tv.RemoveIndex(SizeT(r.below(3)));
                    }
                    break;
                }
                case 34: STEP("reset"); tv.Reset(); tm.reset(); break;
                case 35: case 36: STEP("compress"); tv.Compress(); tm.compress(); break;
                case 37: {
                    if (!ptr_ok || p.depth != 0) break;
                    STEP("set-pointer-to-value");
                    tv.SetPointerToValue(&R[3]);
                    tm.reset();
                    tm.k   = K::Ptr;
                    tm.ptr = &RM[3];
                    break;
                }
                case 38: {
                    if (!ptr_ok) break;
                    STEP("add-pointer-to-value");
                    tv.AddPointerToValue(&R[3]);
                    tm.make_arr();
                    M pm;
                    pm.k   = K::Ptr;
                    pm.ptr = &RM[3];
                    tm.arr.push_back(pm);
                    break;
                }

                case 40: {
                    // readers that allocate: Stringify, GroupBy and Sort on copies must not disturb the source
                    STEP("readers-on-copy");
                    V cp(tv);
                    cp.Sort(r.chance(1, 2));
                    V grouped;
                    S kk = g.key(pool);
                    tv.GroupBy(grouped, kk.data(), SizeT(kk.size()));
                    StringStream<C> ss;
                    tv.Stringify(ss);
                    break;
                }
                case 41: {
                    STEP("construct-typed");
                    V a{ValueType::Array, SizeT(r.below(5))};
                    V o{ValueType::Object, SizeT(r.below(5))};
                    if (!a.IsArray() || a.Size() != 0 || !o.IsObject() || o.Size() != 0) vf::fail(fkey("not-empty").c_str(), "sized constructors");
                    if (r.chance(1, 2)) {
                        tv = Memory::Move(a);
                        tm.reset();
                        tm.k = K::Arr;
                    } else {
                        tv = Memory::Move(o);
                        tm.reset();
                        tm.k = K::Obj;
                    }
                    break;
                }
                default: {
                    STEP("coercions");
                    walk_coercions(R[x], RM[x], r);
                }
            }
            // compare all roots after every step
            for (unsigned q = 0; q < NR; ++q) {
                Cmp<C> cm;
                if (!cm.eq(R[q], RM[q])) {
                    vf::fail(fkey("model-mismatch").c_str(), "step=%u root=%u: %s", g_step, q, cm.why.c_str());
                    return;
                }
            }
            vf::count("steps");
            if (g_c08 && (r.chance(1, 6) || g_step + 1 == steps)) {
                for (unsigned q = 0; q < NR; ++q) c08_check(R[q], RM[q], pool != 2, c);
            }
            vf::count_max("max_nodes", RM[x].nodes());
            vf::count_max("max_depth", RM[x].depth());
        }
        // break the views before the roots die in arbitrary order
        for (unsigned q = 0; q < 3; ++q) R[q].Reset();
    }
}

int main(int argc, char **argv) {
    vf::Args a = vf::parse_args(argc, argv);
    g_c08      = a.optl("c08", 0) != 0;
    if (g_c08 && !a.outfile.empty()) g_c08_out = fopen((a.outfile + "." + std::to_string(a.from)).c_str(), "w");
    for (uint64_t c = a.from; c < a.to; ++c) {
        vf::begin_case(c);
        history(c);
        vf::distinct(vf::mix(c) ^ vf::g_seed);
        if (vf::want_sample()) vf::sample("history #%" PRIu64 ": 15..120 operations over 4 Value<%s> roots (nested targets, aliasing, key pool %u)", c, sizeof(C) == 1 ? "char" : "char16_t", unsigned(c % 3));
        vf::end_case(true);
    }
    if (g_c08_out) fclose(g_c08_out);
    return vf::finish(a);
}
