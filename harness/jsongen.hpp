// Random RFC 8259 document generator (ASCII/UTF-8 text) shared by the JSON harnesses.
#ifndef VERIF_JSONGEN_HPP
#define VERIF_JSONGEN_HPP

#include "common.hpp"

namespace jg {

struct Opts {
    unsigned max_depth   = 6;
    unsigned max_items   = 5;
    bool     whitespace  = true;
    bool     container_top = true;
    bool     raw_utf8    = true;
};

inline void ws(vf::Rng &r, std::string &o, const Opts &op) {
    if (!op.whitespace) return;
    unsigned n = r.chance(3, 4) ? 0 : r.range(1, 3);
    for (unsigned i = 0; i < n; ++i) o += " \t\n\r"[r.below(4)];
}

inline void gen_string_body(vf::Rng &r, std::string &o, const Opts &op) {
    unsigned n = r.chance(1, 8) ? 0 : r.range(1, 8);
    if (r.chance(1, 60)) {
        // long strings (with escapes): scratch buffers grow past their first capacity classes
        static const unsigned big[] = {130, 255, 256, 257, 300, 515, 1030};
        n                           = big[r.below(7)];
    }
    for (unsigned i = 0; i < n; ++i) {
        switch (r.below(14)) {
            case 0: o += "\\\""; break;
            case 1: o += "\\\\"; break;
            case 2: o += "\\/"; break;
            case 3: o += "\\b"; break;
            case 4: o += "\\f"; break;
            case 5: o += "\\n"; break;
            case 6: o += "\\r"; break;
            case 7: o += "\\t"; break;
            case 8: {
                char     b[16];
                uint32_t cp;
                do {
                    cp = r.below(0x10000);
                } while (cp >= 0xD800 && cp <= 0xDFFF);
                snprintf(b, sizeof(b), r.chance(1, 2) ? "\\u%04X" : "\\u%04x", cp);
                o += b;
                break;
            }
            case 9: {
                char     b[32];
                uint32_t v = r.below(0x100000);
                snprintf(b, sizeof(b), r.chance(1, 2) ? "\\u%04X\\u%04X" : "\\u%04x\\u%04x", 0xD800u + (v >> 10), 0xDC00u + (v & 0x3FF));
                o += b;
                break;
            }
            case 10:
                if (op.raw_utf8) {
                    static const char *raw[] = {"\xC3\xA9", "\xE2\x82\xAC", "\xF0\x9F\x98\x80", "\xD8\xA7", "\xE4\xB8\xAD"};
                    o += raw[r.below(5)];
                } else {
                    o += 'u';
                }
                break;
            case 11: o += "/"; break;
            default: {
                char ch = char(0x20 + r.below(0x5F));
                if (ch == '"' || ch == '\\') ch = 'a';
                o += ch;
            }
        }
    }
}

inline void gen_number(vf::Rng &r, std::string &o) {
    if (r.chance(1, 4)) o += '-';
    switch (r.below(6)) {
        case 0: o += '0'; break;
        case 1: o += std::to_string(r.below(1000)); break;
        case 2: o += std::to_string(r.next() >> r.below(64)); break;
        case 3: {
            o += std::to_string(r.below(100000));
            o += '.';
            unsigned n = r.range(1, 8);
            for (unsigned i = 0; i < n; ++i) o += char('0' + r.below(10));
            break;
        }
        case 4: {
            o += std::to_string(1 + r.below(9));
            if (r.chance(1, 2)) {
                o += '.';
                unsigned n = r.range(1, 6);
                for (unsigned i = 0; i < n; ++i) o += char('0' + r.below(10));
            }
            o += r.chance(1, 2) ? 'e' : 'E';
            if (r.chance(1, 3)) o += '+';
            else if (r.chance(1, 2)) o += '-';
            o += std::to_string(r.below(300));
            break;
        }
        default: {
            static const char *b[] = {"9223372036854775807", "9223372036854775808", "18446744073709551615",
                                      "18446744073709551616", "9007199254740993", "0.1", "1e-7", "123456789012345678901234567890"};
            o += b[r.below(8)];
            if (r.chance(1, 3) && o.find_first_of(".e") == std::string::npos) {
                // a long integer mantissa continued as a real, with either exponent letter
                if (r.chance(1, 2)) o += "." + std::to_string(r.below(1000));
                else o += std::string(1, r.chance(1, 2) ? 'E' : 'e') + (r.chance(1, 3) ? "-" : (r.chance(1, 2) ? "+" : "")) + std::to_string(r.below(30));
            }
        }
    }
}

inline void gen_value(vf::Rng &r, std::string &o, const Opts &op, unsigned depth);

inline void gen_array(vf::Rng &r, std::string &o, const Opts &op, unsigned depth) {
    o += '[';
    ws(r, o, op);
    unsigned n = r.chance(1, 6) ? 0 : r.range(1, op.max_items);
    for (unsigned i = 0; i < n; ++i) {
        if (i) {
            o += ',';
            ws(r, o, op);
        }
        gen_value(r, o, op, depth + 1);
        ws(r, o, op);
    }
    o += ']';
}

inline void gen_object(vf::Rng &r, std::string &o, const Opts &op, unsigned depth) {
    o += '{';
    ws(r, o, op);
    unsigned n = r.chance(1, 6) ? 0 : r.range(1, op.max_items);
    for (unsigned i = 0; i < n; ++i) {
        if (i) {
            o += ',';
            ws(r, o, op);
        }
        o += '"';
        if (r.chance(1, 5)) o += "k"; // likely duplicate key
        else if (r.chance(1, 25)) {
            // names with equal hashes where the stored name is a prefix of the later one: plain ("s" then "sh") and through
            // NUL units (the hash of "X" equals that of "X\0\0", of "" that of "\0"): only the length tells them apart
            static const char *fam[][2] = {{"s", "sh"}, {"t", "ti"}, {"l", "la"}, {"X", "X\\u0000\\u0000"}, {"M", "M\\u0000\\u0000\\u0000"}, {"", "\\u0000"}};
            const char *const *f        = fam[r.below(6)];
            o += f[0];
            o += "\":";
            gen_number(r, o);
            o += ",\"";
            o += f[r.chance(1, 4) ? 0 : 1];
        } else gen_string_body(r, o, op);
        o += '"';
        ws(r, o, op);
        o += ':';
        ws(r, o, op);
        gen_value(r, o, op, depth + 1);
        ws(r, o, op);
    }
    o += '}';
}

inline void gen_value(vf::Rng &r, std::string &o, const Opts &op, unsigned depth) {
    unsigned k = r.below(depth >= op.max_depth ? 6 : 9);
    switch (k) {
        case 0: o += "true"; break;
        case 1: o += "false"; break;
        case 2: o += "null"; break;
        case 3:
        case 4: gen_number(r, o); break;
        case 5:
            o += '"';
            gen_string_body(r, o, op);
            o += '"';
            break;
        case 6:
        case 7: gen_array(r, o, op, depth); break;
        default: gen_object(r, o, op, depth);
    }
}

// a valid document with a container at top level, no leading/trailing whitespace
inline std::string gen_doc(vf::Rng &r, const Opts &op) {
    std::string o;
    if (r.chance(1, 2)) gen_array(r, o, op, 0);
    else gen_object(r, o, op, 0);
    return o;
}

} // namespace jg
#endif
