// C20: every Unicode scalar value -> standard UTF-8/16/32 (direct encoder and JSON \u escapes).
// Oracle: tables written by python3's codecs (--opt tables=<dir>), fixed-size records:
//   utf8.bin  : 5 bytes per code point 0..0x10FFFF  (len, b0..b3)
//   utf16.bin : 5 bytes per code point              (len in units, u0 lo, u0 hi, u1 lo, u1 hi)
// UTF-32 needs no table (the unit is the code point).
// A case = one block of 256 code points, every form, every character width.
#include "common.hpp"

#include "JSON.hpp"

using namespace Qentem;

static std::vector<unsigned char> T8, T16;

template <typename Char_T>
static void expected(uint32_t cp, std::vector<Char_T> &out) {
    if (sizeof(Char_T) == 1) {
        const unsigned char *r = &T8[size_t(cp) * 5];
        for (unsigned i = 0; i < r[0]; ++i) out.push_back(Char_T(r[1 + i]));
    } else if (sizeof(Char_T) == 2) {
        const unsigned char *r = &T16[size_t(cp) * 5];
        for (unsigned i = 0; i < r[0]; ++i) out.push_back(Char_T(unsigned(r[1 + 2 * i]) | (unsigned(r[2 + 2 * i]) << 8)));
    } else {
        out.push_back(Char_T(cp));
    }
}

static void put_escape(std::string &s, uint32_t cp, bool upper) {
    char        b[16];
    const char *f = upper ? "\\u%04X" : "\\u%04x";
    if (cp < 0x10000) {
        snprintf(b, sizeof(b), f, cp);
        s += b;
    } else {
        uint32_t v = cp - 0x10000;
        snprintf(b, sizeof(b), f, 0xD800u + (v >> 10));
        s += b;
        snprintf(b, sizeof(b), f, 0xDC00u + (v & 0x3FF));
        s += b;
    }
}

template <typename Char_T>
static const char *uname() {
    return sizeof(Char_T) == 1 ? "utf8" : (sizeof(Char_T) == 2 ? "utf16" : (std::is_same<Char_T, wchar_t>::value ? "utf32w" : "utf32"));
}

template <typename Char_T>
static bool same(const Char_T *a, size_t na, const std::vector<Char_T> &e) {
    if (na != e.size()) return false;
    for (size_t i = 0; i < na; ++i) {
        if (a[i] != e[i]) return false;
    }
    return true;
}

template <typename Char_T>
static void parse_and_compare(const std::string &ascii_doc, const std::vector<Char_T> &exp, bool as_key, uint32_t cp,
                              const char *form) {
    std::vector<Char_T> doc(ascii_doc.begin(), ascii_doc.end());
    vf::ExactBuf<Char_T> buf(doc.data(), doc.size());
    Value<Char_T>        v = JSON::Parse(buf.p, SizeT(buf.n));
    vf::count("parses");
    std::string key = std::string("c20:") + uname<Char_T>() + ":" + form;
    if (as_key) {
        if (!v.IsObject() || v.Size() != 1 || v.GetKey(0) == nullptr) {
            vf::fail(key.c_str(), "U+%04X doc=%s not parsed to a one-member object", cp, ascii_doc.c_str());
            return;
        }
        const String<Char_T> *k = v.GetKey(0);
        if (!same(k->First(), k->Length(), exp)) {
            vf::fail(key.c_str(), "U+%04X doc=%s got=%s expected=%s", cp, ascii_doc.c_str(),
                     vf::show(k->First(), k->Length()).c_str(), vf::show(exp.data(), exp.size()).c_str());
        }
        return;
    }
    const Value<Char_T> *item = v.IsArray() && v.Size() == 1 ? v.GetValue(SizeT(0)) : nullptr;
    if (item == nullptr || !item->IsString()) {
        vf::fail(key.c_str(), "U+%04X doc=%s not parsed to a one-string array", cp, ascii_doc.c_str());
        return;
    }
    const Char_T *s;
    SizeT         n;
    item->SetCharAndLength(s, n);
    if (!same(s, n, exp)) {
        vf::fail(key.c_str(), "U+%04X doc=%s got=%s expected=%s", cp, ascii_doc.c_str(), vf::show(s, n).c_str(),
                 vf::show(exp.data(), exp.size()).c_str());
    }
}

template <typename Char_T>
static void block(uint32_t first) {
    for (uint32_t cp = first; cp < first + 256; ++cp) {
        if (cp >= 0xD800 && cp <= 0xDFFF) continue;
        std::vector<Char_T> exp;
        expected<Char_T>(cp, exp);
        // (a) direct encoder, appended to a stream with earlier content
        {
            StringStream<Char_T> st;
            st += Char_T('p');
            Unicode::ToUTF<Char_T>(cp, st);
            vf::count("direct");
            std::vector<Char_T> e2;
            e2.push_back(Char_T('p'));
            e2.insert(e2.end(), exp.begin(), exp.end());
            if (!same(st.First(), st.Length(), e2)) {
                vf::fail((std::string("c20:") + uname<Char_T>() + ":direct").c_str(), "U+%04X got=%s expected=%s", cp,
                         vf::show(st.First(), st.Length()).c_str(), vf::show(e2.data(), e2.size()).c_str());
            }
        }
        // (a2) the same encoder writing into a String (the other stream-like destination the templates accept), and the
        //      escape decoded by JSONUtils::UnEscape into a String
        {
            String<Char_T> sd;
            sd += Char_T('p');
            Unicode::ToUTF<Char_T>(cp, sd);
            std::vector<Char_T> e2;
            e2.push_back(Char_T('p'));
            e2.insert(e2.end(), exp.begin(), exp.end());
            if (!same(sd.First(), sd.Length(), e2)) {
                vf::fail((std::string("c20:") + uname<Char_T>() + ":direct-into-string").c_str(), "U+%04X got=%s expected=%s", cp,
                         vf::show(sd.First(), sd.Length()).c_str(), vf::show(e2.data(), e2.size()).c_str());
            }
            std::string esc;
            put_escape(esc, cp, (cp & 2) != 0);
            esc += "\"";
            std::vector<Char_T> w(esc.begin(), esc.end());
            String<Char_T>      out;
            SizeT               used = JSONUtils::UnEscape(w.data(), SizeT(w.size()), out);
            // (UnEscape leaves the destination empty when nothing had to be decoded; every \u escape has to be)
            if (used != SizeT(w.size()) || !same(out.First(), out.Length(), exp)) {
                vf::fail((std::string("c20:") + uname<Char_T>() + ":unescape-into-string").c_str(), "U+%04X used=%u got=%s expected=%s", cp, unsigned(used),
                         vf::show(out.First(), out.Length()).c_str(), vf::show(exp.data(), exp.size()).c_str());
            }
            vf::count("direct_into_string", 2);
        }
        // (b) escape alone, upper and lower hex
        for (int upper = 0; upper < 2; ++upper) {
            std::string d = "[\"";
            put_escape(d, cp, upper != 0);
            d += "\"]";
            parse_and_compare<Char_T>(d, exp, false, cp, upper ? "escape-upper" : "escape-lower");
        }
        // (c) embedded between other characters and escapes
        {
            std::string d = "[ \"x";
            put_escape(d, cp, (cp & 1) != 0);
            const char hexch = "0123456789abcdefABCDEF"[cp % 22]; // a literal hex digit directly after the escape
            d += hexch;
            d += "\\t";
            put_escape(d, cp, (cp & 1) == 0);
            d += "\\\\z\" ]";
            std::vector<Char_T> e2;
            e2.push_back(Char_T('x'));
            e2.insert(e2.end(), exp.begin(), exp.end());
            e2.push_back(Char_T(hexch));
            e2.push_back(Char_T('\t'));
            e2.insert(e2.end(), exp.begin(), exp.end());
            e2.push_back(Char_T('\\'));
            e2.push_back(Char_T('z'));
            parse_and_compare<Char_T>(d, e2, false, cp, "embedded");
        }
        // (d) as an object key
        {
            std::string d = "{\"k";
            put_escape(d, cp, true);
            d += "\":1}";
            std::vector<Char_T> e2;
            e2.push_back(Char_T('k'));
            e2.insert(e2.end(), exp.begin(), exp.end());
            parse_and_compare<Char_T>(d, e2, true, cp, "key");
        }
        vf::count("code_points_x_units");
    }
}

int main(int argc, char **argv) {
    vf::Args a = vf::parse_args(argc, argv);
    std::string dir = a.opts("tables", "");
    T8  = vf::slurp(dir + "/utf8.bin");
    T16 = vf::slurp(dir + "/utf16.bin");
    if (T8.size() != 0x110000 * 5 || T16.size() != 0x110000 * 5) {
        fprintf(stderr, "bad tables\n");
        return 2;
    }
    for (uint64_t c = a.from; c < a.to; ++c) {
        vf::begin_case(c);
        uint32_t first = uint32_t(c) << 8;
        if (first >= 0xD800 && first <= 0xDF00) {
            vf::end_case();
            continue;
        }
        block<char>(first);
        block<char16_t>(first);
        block<char32_t>(first);
        block<wchar_t>(first);
        vf::distinct(c);
        vf::count("planes_seen_mask", 0);
        if (vf::want_sample() && (c % 977) == 3) {
            std::string d;
            put_escape(d, first + 0x41, true);
            vf::sample("block U+%04X..U+%04X e.g. [\"%s\"] and {\"k%s\":1} in UTF-8/16/32/wchar_t, direct+4 escape forms",
                       first, first + 255, d.c_str(), d.c_str());
        }
        vf::end_case();
    }
    return vf::finish(a);
}
