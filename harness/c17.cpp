// C17: rendering is pure - cached, repeated and concurrent renders are byte-identical to a fresh single render,
// nothing reachable from the caller is modified, and concurrent renders are race-free (ThreadSanitizer build).
#ifndef VF_CHAR
#define VF_CHAR char
#endif
#include "tmplgen.hpp"

#include <atomic>
#include <thread>

using namespace Qentem;
using C  = VF_CHAR;
using V  = Value<C>;
using SS = StringStream<C>;
using TC = TemplateCore<C, V, SS>;

static tg::Pool<C> *g_pool = nullptr;

static std::basic_string<C> str(const SS &s) {
    return std::basic_string<C>(s.First() ? s.First() : (const C *)U"", s.Length());
}

static void run_case(uint64_t c, unsigned max_threads) {
    vf::Rng r(vf::g_seed, c);
    tg::G   g(r);
    std::string t = g.body(3);
    if (r.chance(1, 6)) t = tg::mutate(r, t); // purity must hold for malformed text too
    if (t.size() > 3000) t.resize(3000);
    std::basic_string<C> w = vm::widen<C>(t);
    vf::GuardBuf<C>      tpl(w.data(), w.size(), true);
    tpl.make_readonly(); // a write to the template text traps
    const C    *content = tpl.p;
    const SizeT length  = SizeT(tpl.n);
    if (vf::g_verbose) fprintf(stderr, "TRACE c17 text hex=%s\n", vf::hex(t.data(), t.size(), 6000).c_str());
    if (vf::want_sample() && (c % 5) == 0) vf::sample("template: %s", vf::show(t.data(), t.size(), 300).c_str());

    // values: shared one + per-thread ones
    const unsigned nvals = 4;
    const V       *vals[nvals];
    std::basic_string<C> before[nvals], fresh[nvals];
    for (unsigned i = 0; i < nvals; ++i) {
        // value 0: the main document; value 1: the same set names reached through pointers-to-value, unsorted
        vals[i] = &g_pool->v[i == 0 ? 0 : (i == 1 ? g_pool->pointer_sets : r.below(uint32_t(g_pool->v.size())))];
        SS s;
        vals[i]->Stringify(s, 17U);
        before[i] = str(s);
        SS out;
        Template::Render(content, length, *vals[i], out); // fresh single render, own cache
        fresh[i] = str(out);
    }
    // parse once into the shared cache (before the threads start, as the documentation says)
    Array<Tags::TagBit> cache_storage;
    TC::Parse(content, length, cache_storage);
    const Array<Tags::TagBit> &cache = cache_storage;
    vf::count("templates");
    vf::count("cache_tags", cache.Size());
    for (const Tags::TagBit &tb : cache) vf::g_counters[std::string("tagkind_") + std::to_string(int(tb.GetType()))] += 1;
    if (cache.Size() != 0) vf::distinct(vf::fnv(t.data(), t.size()));

    // sequential reuse: different values, streams with earlier content, a copy of the cache
    {
        Array<Tags::TagBit> copy(cache);
        for (unsigned k = 0; k < 6; ++k) {
            unsigned i = k % nvals;
            SS       out;
            out << C('p') << C('r') << C('e');
            TC tc{content, length};
            tc.Render((k & 1) ? copy : cache, *vals[i], out);
            std::basic_string<C> got = str(out);
            vf::count("sequential_renders");
            if (got.size() < 3 || got.compare(0, 3, vm::widen<C>("pre")) != 0) vf::fail("c17:stream-prefix-altered", "text=%s", vf::show(t.data(), t.size(), 200).c_str());
            else if (got.substr(3) != fresh[i]) vf::fail("c17:cached-render-differs", "value=%u render=%u text=%s", i, k, vf::show(t.data(), t.size(), 300).c_str());
            // the same TemplateCore object reused for another value
            SS out2;
            tc.Render(cache, *vals[(i + 1) % nvals], out2);
            if (str(out2) != fresh[(i + 1) % nvals]) vf::fail("c17:reused-core-render-differs", "text=%s", vf::show(t.data(), t.size(), 300).c_str());
        }
    }
    // concurrent renders
    static const unsigned tcounts[] = {2, 4, 8, 16};
    unsigned              nt        = std::min(max_threads, tcounts[c % 4]);
    unsigned              reps      = r.range(20, 120);
    std::atomic<int>      ready{0}, inflight{0};
    std::atomic<bool>     go{false};
    std::vector<int>      mismatch(nt, 0), overlapped(nt, 0);
    bool                  same_value = (c % 3) != 0;
    {
        std::vector<std::thread> th;
        for (unsigned ti = 0; ti < nt; ++ti) {
            th.emplace_back([&, ti]() {
                unsigned vi = same_value ? 0 : (ti % nvals);
                ready.fetch_add(1);
                while (!go.load(std::memory_order_acquire)) {
                    std::this_thread::yield(); // (16 worker processes x 16 threads: do not burn the cores other workers need)
                }
                for (unsigned k = 0; k < reps; ++k) {
                    SS out;
                    TC tc{content, length};
                    if (inflight.fetch_add(1) > 0) ++overlapped[ti];
                    tc.Render(cache, *vals[vi], out);
                    inflight.fetch_sub(1);
                    if (std::basic_string<C>(out.First() ? out.First() : (const C *)U"", out.Length()) != fresh[vi]) ++mismatch[ti];
                }
            });
        }
        while (ready.load() < int(nt)) {
            std::this_thread::yield();
        }
        go.store(true, std::memory_order_release);
        for (auto &x : th) x.join();
    }
    unsigned mm = 0, ov = 0;
    for (unsigned ti = 0; ti < nt; ++ti) {
        mm += unsigned(mismatch[ti]);
        ov += unsigned(overlapped[ti]);
    }
    vf::count("concurrent_renders", uint64_t(nt) * reps);
    vf::count("overlapping_renders", ov);
    vf::g_counters["threads_" + std::to_string(nt)] += 1;
    if (mm != 0) vf::fail("c17:concurrent-render-differs", "threads=%u mismatches=%u text=%s", nt, mm, vf::show(t.data(), t.size(), 300).c_str());
    // nothing was modified
    for (unsigned i = 0; i < nvals; ++i) {
        SS s;
        vals[i]->Stringify(s, 17U);
        if (str(s) != before[i]) vf::fail("c17:value-modified", "value=%u text=%s", i, vf::show(t.data(), t.size(), 300).c_str());
    }
    if (memcmp(tpl.p, w.data(), w.size() * sizeof(C)) != 0) vf::fail("c17:template-modified", "text=%s", vf::show(t.data(), t.size(), 300).c_str());
    {
        SS out;
        TC tc{content, length};
        tc.Render(cache, *vals[0], out);
        if (str(out) != fresh[0]) vf::fail("c17:cache-modified", "text=%s", vf::show(t.data(), t.size(), 300).c_str());
    }
}

int main(int argc, char **argv) {
    vf::Args a = vf::parse_args(argc, argv);
    unsigned mt = unsigned(a.optl("threads", 16));
    vf::g_announce       = true;
    vf::ledger().enabled = false; // the ledger is not the subject here; TSan watches the library
    g_pool               = new tg::Pool<C>();
    for (uint64_t c = a.from; c < a.to; ++c) {
        vf::begin_case(c);
        run_case(c, mt);
        vf::end_case(false);
    }
    return vf::finish(a);
}
