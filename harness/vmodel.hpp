// Abstract JSON document model for Value<Char_T> (DESIGN.md appendix A.1) + recursive comparer + random builders.
// Shared by the C12 (histories), C08 (stringify/parse), C16 (ledger) and C18 (grouping) harnesses.
#ifndef VERIF_VMODEL_HPP
#define VERIF_VMODEL_HPP

#include "common.hpp"

#include <cmath>
#include <memory>

#include "JSON.hpp"

namespace vm {
using namespace Qentem;

enum class K { Undef, Obj, Arr, Str, U64, I64, Dbl, True, False, Null, Ptr };

template <typename C>
struct MV {
    using S = std::basic_string<C>;
    struct Member {
        S    key;
        MV   val;
        bool live;
    };
    K                   k = K::Undef;
    std::vector<Member> obj;
    std::vector<MV>     arr;
    S                   s;
    uint64_t            u = 0;
    int64_t             i = 0;
    double              d = 0;
    const MV           *ptr = nullptr;

    static MV U(uint64_t v) {
        MV m;
        m.k = K::U64;
        m.u = v;
        return m;
    }
    static MV I(int64_t v) {
        MV m;
        m.k = K::I64;
        m.i = v;
        return m;
    }
    static MV D(double v) {
        MV m;
        m.k = K::Dbl;
        m.d = v;
        return m;
    }
    static MV Str(const S &v) {
        MV m;
        m.k = K::Str;
        m.s = v;
        return m;
    }
    static MV Kind(K k) {
        MV m;
        m.k = k;
        return m;
    }
    void reset() {
        *this = MV();
    }
    // the value a reader sees (views delegate)
    const MV &eff() const {
        return (k == K::Ptr && ptr != nullptr) ? *ptr : *this;
    }
    int find(const S &key) const {
        for (size_t x = 0; x < obj.size(); ++x) {
            if (obj[x].live && obj[x].key == key) return int(x);
        }
        return -1;
    }
    bool has_removed() const {
        for (auto &m : obj) {
            if (!m.live) return true;
        }
        return false;
    }
    MV &upsert(const S &key) {
        int x = find(key);
        if (x >= 0) return obj[size_t(x)].val;
        obj.push_back(Member{key, MV(), true});
        return obj.back().val;
    }
    bool contains_ptr() const {
        if (k == K::Ptr) return true;
        for (auto &m : obj) {
            if (m.live && m.val.contains_ptr()) return true;
        }
        for (auto &e : arr) {
            if (e.contains_ptr()) return true;
        }
        return false;
    }
    size_t nodes() const {
        size_t n = 1;
        for (auto &m : obj) n += m.val.nodes();
        for (auto &e : arr) n += e.nodes();
        return n;
    }
    unsigned depth() const {
        unsigned d2 = 0;
        for (auto &m : obj) d2 = std::max(d2, m.val.depth());
        for (auto &e : arr) d2 = std::max(d2, e.depth());
        return d2 + 1;
    }
    void make_obj() {
        if (k != K::Obj) {
            reset();
            k = K::Obj;
        }
    }
    void make_arr() {
        if (k != K::Arr) {
            reset();
            k = K::Arr;
        }
    }
    // object merge: replace-or-append per live member in source order
    void merge_obj(const MV &src) {
        std::vector<Member> snap = src.obj; // src may alias
        for (auto &m : snap) {
            if (!m.live) continue;
            upsert(m.key) = m.val;
        }
    }
    void compress() {
        if (k == K::Arr) {
            std::vector<MV> n;
            for (auto &e : arr) {
                if (e.k != K::Undef) n.push_back(e);
            }
            arr.swap(n);
            for (auto &e : arr) {
                if (e.k == K::Arr || e.k == K::Obj) e.compress();
            }
        } else if (k == K::Obj) {
            std::vector<Member> n;
            for (auto &m : obj) {
                if (m.live) n.push_back(m);
            }
            obj.swap(n);
            for (auto &m : obj) {
                if (m.val.k == K::Arr || m.val.k == K::Obj) m.val.compress();
            }
        }
    }
};

template <typename C>
inline std::basic_string<C> widen(const std::string &s) {
    std::basic_string<C> o;
    for (char ch : s) o += C((unsigned char)ch);
    return o;
}

static inline const char *kname(K k) {
    static const char *n[] = {"undefined", "object", "array", "string", "uint", "int", "double", "true", "false", "null", "ptr"};
    return n[int(k)];
}

// ------------------------------------------------------------------ comparer
template <typename C>
struct Cmp {
    std::string why;
    std::string path;
    bool        strict_double = true; // false: doubles compared by value only

    bool fail(const std::string &w) {
        if (why.empty()) why = w + " at " + (path.empty() ? "<root>" : path);
        return false;
    }

    bool scalar(const Value<C> &v, const MV<C> &m) {
        switch (m.k) {
            case K::Str: {
                if (!v.IsString() || v.IsNumber() || v.IsObject() || v.IsArray() || v.IsUndefined()) return fail("kind: expected string");
                const C *p;
                SizeT    n;
                if (!v.SetCharAndLength(p, n) || n != m.s.size() || v.Length() != m.s.size()) return fail("string length");
                for (size_t x = 0; x < m.s.size(); ++x) {
                    if (p[x] != m.s[x]) return fail("string content");
                }
                if (v.StringStorage() != p) return fail("StringStorage");
                StringView<C> sv = v.GetStringView();
                if (sv.Length() != n || sv.First() != p) return fail("GetStringView");
                const String<C> *gs = v.GetString();
                if (gs == nullptr || gs->Length() != n) return fail("GetString");
                return true;
            }
            case K::U64:
                if (!v.IsUInt64() || !v.IsNumber() || v.GetNumberType() != QNumberType::Natural || v.GetUInt64() != m.u) return fail("uint value");
                if (v.GetDouble() != double(m.u)) return fail("uint GetDouble");
                return true;
            case K::I64:
                if (!v.IsInt64() || !v.IsNumber() || v.GetNumberType() != QNumberType::Integer || v.GetInt64() != m.i) return fail("int value");
                if (v.GetDouble() != double(m.i)) return fail("int GetDouble");
                return true;
            case K::Dbl: {
                if (!v.IsDouble() || !v.IsNumber() || v.GetNumberType() != QNumberType::Real) return fail("kind: expected double");
                double g = v.GetDouble();
                if (strict_double ? (memcmp(&g, &m.d, 8) != 0) : !(g == m.d)) return fail("double value");
                return true;
            }
            case K::True:
                if (!v.IsTrue() || v.IsFalse() || v.IsNull() || v.IsNumber()) return fail("kind: expected true");
                return true;
            case K::False:
                if (!v.IsFalse() || v.IsTrue()) return fail("kind: expected false");
                return true;
            case K::Null:
                if (!v.IsNull() || v.IsUndefined()) return fail("kind: expected null");
                return true;
            default: return fail("internal");
        }
    }

    // v is compared with what a reader of m sees
    bool eq(const Value<C> &v, const MV<C> &mraw, unsigned depth = 0) {
        if (mraw.k == K::Ptr) {
            if (v.Type() != ValueType::ValuePtr) return fail("kind: expected pointer-to-value");
        } else {
            static const ValueType map[] = {ValueType::Undefined, ValueType::Object, ValueType::Array, ValueType::String, ValueType::UIntLong,
                                            ValueType::IntLong, ValueType::Double, ValueType::True, ValueType::False, ValueType::Null};
            if (v.Type() != map[int(mraw.k)]) return fail(std::string("Type(): expected ") + kname(mraw.k));
        }
        const MV<C> &m = mraw.eff();
        vf::count("nodes_compared");
        switch (m.k) {
            case K::Undef: {
                if (!v.IsUndefined() || v.IsObject() || v.IsArray() || v.IsString() || v.IsNumber() || v.IsNull() || v.Size() != 0) return fail("expected undefined");
                return true;
            }
            case K::Obj: {
                if (!v.IsObject() || v.IsArray() || v.IsUndefined() || v.GetObject() == nullptr) return fail("kind: expected object");
                if (!m.has_removed() && v.Size() != m.obj.size()) return fail("object Size()");
                // live keys in order
                size_t       li = 0;
                const SizeT  n  = v.Size();
                for (SizeT x = 0; x < n; ++x) {
                    const String<C> *key = v.GetKey(x);
                    if (key == nullptr) continue;
                    while (li < m.obj.size() && !m.obj[li].live) ++li;
                    if (li >= m.obj.size()) return fail("object has an extra member");
                    const auto &mm = m.obj[li];
                    if (key->Length() != mm.key.size()) return fail("member key (order or content)");
                    for (size_t q = 0; q < mm.key.size(); ++q) {
                        if (key->First()[q] != mm.key[q]) return fail("member key (order or content)");
                    }
                    const Value<C> *bi = v.GetValue(x);
                    const Value<C> *bk = v.GetValue(mm.key.data(), SizeT(mm.key.size()));
                    if (bi != bk) return fail("lookup by key and by position disagree");
                    if ((bk == nullptr) != (mm.val.k == K::Undef)) return fail("member presence");
                    if (bk != nullptr) {
                        std::string save = path;
                        path += "." + vf::show(mm.key.data(), mm.key.size(), 12);
                        bool ok = eq(*bk, mm.val, depth + 1);
                        if (!ok) return false;
                        path = save;
                    }
                    ++li;
                }
                while (li < m.obj.size() && !m.obj[li].live) ++li;
                if (li != m.obj.size()) return fail("object lacks a member");
                // removed keys read as absent
                for (auto &mm : m.obj) {
                    if (!mm.live && m.find(mm.key) < 0 && v.GetValue(mm.key.data(), SizeT(mm.key.size())) != nullptr) return fail("removed member still readable");
                }
                return true;
            }
            case K::Arr: {
                if (!v.IsArray() || v.IsObject() || v.IsUndefined() || v.GetArray() == nullptr) return fail("kind: expected array");
                if (v.Size() != m.arr.size()) return fail("array Size()");
                for (size_t x = 0; x < m.arr.size(); ++x) {
                    const Value<C> *e = v.GetValue(SizeT(x));
                    if ((e == nullptr) != (m.arr[x].k == K::Undef)) return fail("array element presence");
                    if (e != nullptr) {
                        std::string save = path;
                        path += "[" + std::to_string(x) + "]";
                        if (!eq(*e, m.arr[x], depth + 1)) return false;
                        path = save;
                    }
                }
                if (v.GetValue(SizeT(m.arr.size())) != nullptr) return fail("array element beyond size");
                return true;
            }
            default: return scalar(v, m);
        }
    }
};

// ------------------------------------------------------------------ random payloads
template <typename C>
struct Gen {
    using S = std::basic_string<C>;
    vf::Rng &r;
    explicit Gen(vf::Rng &rr) : r(rr) {
    }
    S key(unsigned pool) {
        static const char *p0[] = {"a", "b", "c", "k", "ab", "abc", "", "x1"};
        // p1: keys with equal hashes (the hash ignores the first unit of two); "s"/"sh", "t"/"ti", "l"/"la": equal hash AND
        // one key a proper prefix of the other, so only the length tells them apart
        static const char *p1[] = {"ax", "bx", "cx", "dx", "ex", "a", "x", "s", "sh", "t", "ti", "l", "la"};
        switch (pool % 3) {
            case 0: return widen<C>(p0[r.below(8)]);
            case 1: return widen<C>(p1[r.below(13)]);
            default: {
                S        s;
                unsigned n = r.below(5);
                for (unsigned i = 0; i < n; ++i) s += C(r.chance(1, 6) ? (sizeof(C) == 1 ? 0xC3 : 0x20AC) : ('a' + r.below(4)));
                return s;
            }
        }
    }
    S text(bool all_units) {
        S        s;
        unsigned n = r.below(8);
        if (r.chance(1, 80)) {
            // long payloads: string storage and the stringifier's buffers pass their first capacity classes
            static const unsigned big[] = {31, 32, 33, 127, 128, 129, 255, 256, 257, 600};
            n                           = big[r.below(10)];
        }
        for (unsigned i = 0; i < n; ++i) {
            unsigned k = r.below(all_units ? 16 : 8);
            switch (k) {
                case 8: s += C('"'); break;
                case 9: s += C('\\'); break;
                case 10: s += C('/'); break;
                case 11: s += C(r.below(0x20)); break; // control characters incl. NUL
                case 12: s += C("\b\t\n\f\r"[r.below(5)]); break;
                case 13:
                    if (sizeof(C) == 1) {
                        s += C(0xF0);
                        s += C(0x9F);
                        s += C(0x98);
                        s += C(0x80);
                    } else if (sizeof(C) == 2) {
                        s += C(0xD83D);
                        s += C(0xDE00);
                    } else {
                        s += C(0x1F600);
                    }
                    break;
                case 14:
                    if (sizeof(C) == 1) {
                        s += C(0xC3);
                        s += C(0xA9);
                    } else {
                        s += C(0xE9);
                    }
                    break;
                case 15: s += C(0x7F); break;
                default: s += C(' ' + r.below(0x5E));
            }
        }
        return s;
    }
    uint64_t u64() {
        static const uint64_t b[] = {0, 1, 9007199254740991ULL, 9007199254740993ULL, 9223372036854775807ULL, 9223372036854775808ULL, 18446744073709551615ULL, 10, 100};
        return r.chance(1, 2) ? b[r.below(9)] : (r.next() >> r.below(64));
    }
    int64_t i64() {
        static const int64_t b[] = {-1, -9007199254740993LL, INT64_MIN, INT64_MAX, -10, 0, 5};
        return r.chance(1, 2) ? b[r.below(7)] : int64_t(r.next() >> r.below(63)) * (r.chance(1, 2) ? -1 : 1);
    }
    double dbl() {
        static const double b[] = {0.0, -0.0, 1.5, -2.25, 1e300, -1e-300, 5e-324, 1.7976931348623157e308, 0.1, 123456.789, 9007199254740992.0, 1e21, 1e-7};
        if (r.chance(1, 2)) return b[r.below(13)];
        for (;;) {
            uint64_t bits = r.next();
            double   d;
            memcpy(&d, &bits, 8);
            if (std::isfinite(d)) return d;
        }
    }
    // random tree, built twice (model + real through the public API)
    void tree(Value<C> &v, MV<C> &m, unsigned depth, bool all_units, unsigned pool) {
        unsigned k = r.below(depth == 0 ? 10 : 12);
        if (depth == 0 && k >= 8) k = r.below(8);
        switch (k) {
            case 0: v = u64_last = u64(); m = MV<C>::U(u64_last); break;
            case 1: {
                int64_t x = i64();
                v         = (long long)x;
                m         = MV<C>::I(x);
                break;
            }
            case 2: {
                double x = dbl();
                v        = x;
                m        = MV<C>::D(x);
                break;
            }
            case 3: {
                S t = text(all_units);
                v   = String<C>((const C *)t.data(), SizeT(t.size()));
                m   = MV<C>::Str(t);
                break;
            }
            case 4: v = true; m = MV<C>::Kind(K::True); break;
            case 5: v = false; m = MV<C>::Kind(K::False); break;
            case 6: v = nullptr; m = MV<C>::Kind(K::Null); break;
            case 7: v.Reset(); m.reset(); break;
            case 8:
            case 9: {
                v = typename Value<C>::ArrayT{};
                m.reset();
                m.k        = K::Arr;
                unsigned n = r.below(5);
                for (unsigned i = 0; i < n; ++i) {
                    Value<C> e;
                    MV<C>    em;
                    tree(e, em, depth - 1, all_units, pool);
                    v[SizeT(i)] = Memory::Move(e);
                    m.arr.push_back(em);
                }
                break;
            }
            default: {
                v = typename Value<C>::ObjectT{};
                m.reset();
                m.k        = K::Obj;
                unsigned n = r.below(5);
                for (unsigned i = 0; i < n; ++i) {
                    Value<C> e;
                    MV<C>    em;
                    tree(e, em, depth - 1, all_units, pool);
                    S kk = key(pool);
                    v[String<C>((const C *)kk.data(), SizeT(kk.size()))] = Memory::Move(e);
                    m.upsert(kk)                                          = em;
                }
            }
        }
    }
    uint64_t u64_last = 0;
};

} // namespace vm
#endif
