// C14: Array / String / StringStream / StringView against std::vector / std::basic_string models, step by step,
// plus the Memory::Copy / SetToZero sweep (all lengths x misalignments, canaries).
//   --opt mode=hist   a case = one history (container family chosen by case index)
//   --opt mode=copy   a case = one length (0..4096): all 32x32 source/destination misalignments
#include "common.hpp"

#include <algorithm>

#include "Array.hpp"
#include "String.hpp"
#include "StringStream.hpp"
#include "StringView.hpp"

using namespace Qentem;

static const char *g_fam = "";
static std::string g_trace;

#define STEP(name)                                              \
    do {                                                        \
        opname = (name);                                        \
        if (vf::g_verbose) fprintf(stderr, "TRACE %s step %u: %s\n", g_fam, step, opname); \
        vf::g_counters[std::string("op_") + g_fam + ":" + opname] += 1; \
    } while (0)

static std::string key(const char *op, const char *what) {
    return std::string("c14:") + g_fam + ":" + op + ":" + what;
}

// ------------------------------------------------------------------ Array<T>
template <typename T>
struct Elem;
template <>
struct Elem<int> {
    static int make(vf::Rng &r) {
        return int(r.below(1000));
    }
    static bool eq(const int &a, const int &b) {
        return a == b;
    }
    using M = int;
    static M model(const int &a) {
        return a;
    }
};
template <>
struct Elem<String<char>> {
    using M = std::string;
    static String<char> make(vf::Rng &r) {
        std::string s;
        unsigned    n = r.below(6);
        for (unsigned i = 0; i < n; ++i) s += char('a' + r.below(26));
        return String<char>((const char *)s.data(), SizeT(s.size()));
    }
    static M model(const String<char> &a) {
        return std::string(a.First() ? a.First() : "", a.Length());
    }
};
template <>
struct Elem<Array<int>> {
    using M = std::vector<int>;
    static Array<int> make(vf::Rng &r) {
        Array<int> a;
        unsigned   n = r.below(4);
        for (unsigned i = 0; i < n; ++i) a += int(r.below(100));
        return a;
    }
    static M model(const Array<int> &a) {
        return std::vector<int>(a.First(), a.First() + a.Size());
    }
};

template <typename T>
static bool check_array(const Array<T> &a, const std::vector<typename Elem<T>::M> &m, const char *op, unsigned step, unsigned var) {
    if (a.Size() != m.size()) {
        vf::fail(key(op, "size").c_str(), "step=%u var=%u size=%u model=%zu", step, var, unsigned(a.Size()), m.size());
        return false;
    }
    if (a.Capacity() < a.Size()) {
        vf::fail(key(op, "capacity-below-size").c_str(), "step=%u var=%u size=%u capacity=%u", step, var, unsigned(a.Size()), unsigned(a.Capacity()));
        return false;
    }
    if (a.IsEmpty() != m.empty() || a.IsNotEmpty() == m.empty()) {
        vf::fail(key(op, "isempty").c_str(), "step=%u var=%u", step, var);
        return false;
    }
    if ((a.Last() == nullptr) != m.empty() || (a.Size() && a.Last() != a.First() + (a.Size() - 1)) || a.End() != a.First() + a.Size()) {
        vf::fail(key(op, "first-last-end").c_str(), "step=%u var=%u", step, var);
        return false;
    }
    for (size_t i = 0; i < m.size(); ++i) {
        if (!(Elem<T>::model(a.First()[i]) == m[i])) {
            vf::fail(key(op, "content").c_str(), "step=%u var=%u index=%zu of %zu differs from the model", step, var, i, m.size());
            return false;
        }
    }
    return true;
}

template <typename T>
static void hist_array(uint64_t c, const char *fam) {
    g_fam = fam;
    vf::Rng r(vf::g_seed, c);
    using M = typename Elem<T>::M;
    const unsigned K = 3;
    {
        Array<T>       a[K];
        std::vector<M> m[K];
        unsigned       steps = r.range(10, 70);
        const char    *opname = "init";
        for (unsigned step = 0; step < steps; ++step) {
            unsigned x = r.below(K), y = r.below(K);
            unsigned op = r.below(30);
            switch (op) {
                case 0:
                case 1:
                case 2: {
                    STEP("append-item-move");
                    T e = Elem<T>::make(r);
                    m[x].push_back(Elem<T>::model(e));
                    a[x] += Memory::Move(e);
                    break;
                }
                case 3:
                case 4: {
                    STEP("append-item-copy");
                    T e = Elem<T>::make(r);
                    m[x].push_back(Elem<T>::model(e));
                    a[x] += e;
                    break;
                }
                case 5: {
                    STEP("insert-item");
                    T  e   = Elem<T>::make(r);
                    M  em  = Elem<T>::model(e);
                    m[x].push_back(em);
                    T &ref = r.chance(1, 2) ? a[x].Insert(e) : a[x].Insert(Memory::Move(e));
                    if (&ref != a[x].Storage() + (a[x].Size() - 1) || !(Elem<T>::model(ref) == em))
                        vf::fail(key(opname, "returned-reference").c_str(), "step=%u", step);
                    break;
                }
                case 6:
                case 7: {
                    STEP(x == y ? "append-array-copy-self" : "append-array-copy");
                    std::vector<M> src = m[y];
                    m[x].insert(m[x].end(), src.begin(), src.end());
                    if (r.chance(1, 2)) a[x] += a[y];
                    else a[x].Insert(a[y]);
                    break;
                }
                case 8:
                case 9: {
                    if (x == y) break;
                    STEP("append-array-move");
                    m[x].insert(m[x].end(), m[y].begin(), m[y].end());
                    m[y].clear();
                    if (r.chance(1, 2)) a[x] += Memory::Move(a[y]);
                    else a[x].Insert(Memory::Move(a[y]));
                    if (a[y].Storage() != nullptr || a[y].Capacity() != 0)
                        vf::fail(key(opname, "moved-from-not-empty").c_str(), "step=%u", step);
                    break;
                }
                case 10: {
                    STEP(x == y ? "copy-assign-self" : "copy-assign");
                    m[x] = std::vector<M>(m[y]);
                    a[x] = a[y];
                    break;
                }
                case 11: {
                    if (x == y) {
                        STEP("move-assign-self");
                        Array<T> &self = a[x];
                        a[x]           = Memory::Move(self);
                        break;
                    }
                    STEP("move-assign");
                    m[x] = m[y];
                    m[y].clear();
                    a[x] = Memory::Move(a[y]);
                    break;
                }
                case 12: {
                    STEP("copy-construct");
                    Array<T> t(a[y]);
                    check_array(t, m[y], opname, step, 9);
                    m[x] = m[y];
                    a[x] = Memory::Move(t);
                    break;
                }
                case 13: {
                    if (x == y) break;
                    STEP("move-construct");
                    Array<T> t(Memory::Move(a[y]));
                    check_array(t, m[y], opname, step, 9);
                    m[x] = m[y];
                    m[y].clear();
                    a[x] = Memory::Move(t);
                    break;
                }
                case 14: {
                    STEP("clear");
                    m[x].clear();
                    a[x].Clear();
                    break;
                }
                case 15: {
                    STEP("reset");
                    m[x].clear();
                    a[x].Reset();
                    if (a[x].Capacity() != 0 || a[x].Storage() != nullptr) vf::fail(key(opname, "not-released").c_str(), "step=%u", step);
                    break;
                }
                case 16: {
                    STEP("reserve");
                    unsigned n    = r.below(12);
                    bool     init = r.chance(1, 2);
                    m[x].clear();
                    if (init) m[x].resize(n);
                    a[x].Reserve(SizeT(n), init);
                    if (a[x].Capacity() < n) vf::fail(key(opname, "capacity").c_str(), "step=%u", step);
                    break;
                }
                case 17:
                case 18: {
                    STEP("resize");
                    unsigned n = r.below(unsigned(m[x].size()) + 6);
                    if (n < m[x].size()) m[x].resize(n);
                    a[x].Resize(SizeT(n));
                    if (a[x].Capacity() != n) vf::fail(key(opname, "capacity").c_str(), "step=%u capacity=%u n=%u", step, unsigned(a[x].Capacity()), n);
                    break;
                }
                case 19: {
                    STEP("resize-and-initialize");
                    unsigned n = r.below(unsigned(m[x].size()) + 6);
                    m[x].resize(n);
                    a[x].ResizeAndInitialize(SizeT(n));
                    break;
                }
                case 20: {
                    STEP("expect");
                    unsigned n = r.below(10);
                    a[x].Expect(SizeT(n));
                    if (a[x].Capacity() < a[x].Size() + n) vf::fail(key(opname, "capacity").c_str(), "step=%u", step);
                    break;
                }
                case 21: {
                    STEP("compress");
                    a[x].Compress();
                    if (a[x].Capacity() != a[x].Size()) vf::fail(key(opname, "capacity").c_str(), "step=%u", step);
                    break;
                }
                case 22: {
                    STEP("drop");
                    unsigned n = r.below(unsigned(m[x].size()) + 3);
                    if (n <= m[x].size()) m[x].resize(m[x].size() - n);
                    a[x].Drop(SizeT(n));
                    break;
                }
                case 23: {
                    STEP("detach");
                    T          *p = a[x].Detach();
                    const size_t n = m[x].size();
                    for (size_t i = 0; i < n; ++i) {
                        if (!(Elem<T>::model(p[i]) == m[x][i])) vf::fail(key(opname, "content").c_str(), "step=%u", step);
                    }
                    Memory::Dispose(p, p + n);
                    Memory::Deallocate(p);
                    m[x].clear();
                    break;
                }
                case 24: {
                    STEP("construct-sized");
                    unsigned n    = r.below(10);
                    bool     init = r.chance(1, 2);
                    Array<T> t(SizeT(n), init);
                    m[x].clear();
                    if (init) m[x].resize(n);
                    a[x] = Memory::Move(t);
                    break;
                }
                case 25: {
                    if (m[x].size() < 2) break;
                    STEP("swap-items");
                    unsigned i = r.below(unsigned(m[x].size())), j = r.below(unsigned(m[x].size()));
                    if (i == j) break;
                    std::swap(m[x][i], m[x][j]);
                    a[x].Swap(a[x].Storage()[i], a[x].Storage()[j]);
                    break;
                }
                case 26: {
                    STEP("iterate");
                    size_t i = 0;
                    for (const T &e : static_cast<const Array<T> &>(a[x])) {
                        if (i >= m[x].size() || !(Elem<T>::model(e) == m[x][i])) {
                            vf::fail(key(opname, "content").c_str(), "step=%u", step);
                            break;
                        }
                        ++i;
                    }
                    if (i != m[x].size()) vf::fail(key(opname, "count").c_str(), "step=%u", step);
                    break;
                }
                default: {
                    STEP("append-many");
                    unsigned n = r.range(1, 9);
                    for (unsigned i = 0; i < n; ++i) {
                        T e = Elem<T>::make(r);
                        m[x].push_back(Elem<T>::model(e));
                        a[x] += Memory::Move(e);
                    }
                }
            }
            bool ok = true;
            for (unsigned v = 0; v < K && ok; ++v) ok = check_array(a[v], m[v], opname, step, v);
            if (!ok) break;
            vf::count("steps");
        }
    }
}

// ------------------------------------------------------------------ String<Char_T>
template <typename C>
static std::basic_string<C> rnd_str(vf::Rng &r, unsigned maxlen) {
    std::basic_string<C> s;
    unsigned             n = r.below(maxlen + 1);
    for (unsigned i = 0; i < n; ++i) {
        unsigned k = r.below(12);
        if (k == 0) s += C(' ');
        else if (k == 1) s += C('\n');
        else if (k == 2) s += C('\t');
        else if (k == 3) s += C(sizeof(C) == 1 ? 0xE9 : 0x20AC);
        else s += C('a' + r.below(26));
    }
    return s;
}

template <typename C>
static bool check_string(const String<C> &s, const std::basic_string<C> &m, const char *op, unsigned step, unsigned var) {
    if (s.Length() != m.size()) {
        vf::fail(key(op, "length").c_str(), "step=%u var=%u length=%u model=%zu", step, var, unsigned(s.Length()), m.size());
        return false;
    }
    if (s.First() != nullptr && s.First()[s.Length()] != C(0)) {
        vf::fail(key(op, "not-nul-terminated").c_str(), "step=%u var=%u length=%u", step, var, unsigned(s.Length()));
        return false;
    }
    if (s.Length() != 0 && s.First() == nullptr) {
        vf::fail(key(op, "null-storage").c_str(), "step=%u var=%u", step, var);
        return false;
    }
    for (size_t i = 0; i < m.size(); ++i) {
        if (s.First()[i] != m[i]) {
            vf::fail(key(op, "content").c_str(), "step=%u var=%u index=%zu got=%s model=%s", step, var, i,
                     vf::show(s.First(), s.Length(), 80).c_str(), vf::show(m.data(), m.size(), 80).c_str());
            return false;
        }
    }
    if (s.IsEmpty() != m.empty() || (s.Last() == nullptr) != m.empty() || s.End() != s.First() + s.Length()) {
        vf::fail(key(op, "accessors").c_str(), "step=%u var=%u", step, var);
        return false;
    }
    return true;
}

template <typename C>
static std::basic_string<C> trim_model(const std::basic_string<C> &m) {
    size_t a = 0, b = m.size();
    auto   ws = [](C ch) { return ch == C(' ') || ch == C('\n') || ch == C('\t') || ch == C('\r'); };
    while (a < b && ws(m[a])) ++a;
    while (b > a && ws(m[b - 1])) --b;
    return m.substr(a, b - a);
}

template <typename C>
static void hist_string(uint64_t c, const char *fam) {
    g_fam = fam;
    vf::Rng r(vf::g_seed, c);
    using MS = std::basic_string<C>;
    const unsigned K = 3;
    String<C>      s[K];
    MS             m[K];
    unsigned       steps  = r.range(10, 70);
    const char    *opname = "init";
    for (unsigned step = 0; step < steps; ++step) {
        unsigned x = r.below(K), y = r.below(K);
        unsigned op = r.below(34);
        MS       t  = rnd_str<C>(r, 9);
        switch (op) {
            case 0: {
                STEP("assign-literal");
                m[x] = t;
                s[x] = t.c_str();
                break;
            }
            case 1: {
                STEP("construct-copy-of-range");
                String<C> n((const C *)t.data(), SizeT(t.size()));
                m[x] = t;
                s[x] = Memory::Move(n);
                break;
            }
            case 2: {
                STEP("construct-adopting");
                C *buf = Memory::Allocate<C>(SizeT(t.size() + 1));
                for (size_t i = 0; i < t.size(); ++i) buf[i] = t[i];
                buf[t.size()] = C(0);
                String<C> n(buf, SizeT(t.size()));
                m[x] = t;
                s[x] = Memory::Move(n);
                break;
            }
            case 3: {
                STEP("construct-length");
                unsigned  n = r.below(8);
                String<C> z{SizeT(n)};
                if (z.Length() != n || (n && z.First()[n] != C(0))) vf::fail(key(opname, "length").c_str(), "step=%u", step);
                for (unsigned i = 0; i < n; ++i) z.Storage()[i] = C('z');
                m[x] = MS(n, C('z'));
                s[x] = Memory::Move(z);
                break;
            }
            case 4: {
                STEP(x == y ? "copy-assign-self" : "copy-assign");
                m[x] = MS(m[y]);
                s[x] = s[y];
                break;
            }
            case 5: {
                if (x == y) {
                    STEP("move-assign-self");
                    String<C> &self = s[x];
                    s[x]            = Memory::Move(self);
                    break;
                }
                STEP("move-assign");
                m[x] = m[y];
                m[y].clear();
                s[x] = Memory::Move(s[y]);
                if (s[y].First() != nullptr) vf::fail(key(opname, "moved-from-not-empty").c_str(), "step=%u", step);
                break;
            }
            case 6: {
                STEP("copy-construct");
                String<C> n(s[y]);
                check_string(n, m[y], opname, step, 9);
                m[x] = m[y];
                s[x] = Memory::Move(n);
                break;
            }
            case 7: {
                if (x == y) break;
                STEP("move-construct");
                String<C> n(Memory::Move(s[y]));
                m[x] = m[y];
                m[y].clear();
                s[x] = Memory::Move(n);
                break;
            }
            case 8:
            case 9: {
                STEP(x == y ? "append-string-copy-self" : "append-string-copy");
                MS src = m[y];
                m[x] += src;
                if (r.chance(1, 2)) s[x] += s[y];
                else s[x] << s[y];
                break;
            }
            case 10: {
                if (x == y) break;
                STEP("append-string-move");
                m[x] += m[y];
                m[y].clear();
                s[x] += Memory::Move(s[y]);
                break;
            }
            case 11:
            case 12: {
                STEP("append-literal");
                m[x] += t;
                if (r.chance(1, 2)) s[x] += t.c_str();
                else s[x] << t.c_str();
                break;
            }
            case 13:
            case 14: {
                STEP("append-char");
                C ch = C('A' + r.below(26));
                m[x] += ch;
                s[x] += ch;
                break;
            }
            case 15: {
                STEP("write-range");
                m[x] += t;
                s[x].Write((const C *)t.data(), SizeT(t.size()));
                break;
            }
            case 16: {
                STEP("plus");
                String<C> n = r.chance(1, 2) ? (s[x] + s[y]) : String<C>::Merge(s[x], s[y]);
                MS        e = m[x] + m[y];
                check_string(n, e, opname, step, 9);
                unsigned z = r.below(K);
                m[z]       = e;
                s[z]       = Memory::Move(n);
                break;
            }
            case 17: {
                STEP("plus-literal");
                String<C> n = s[x] + t.c_str();
                MS        e = m[x] + t;
                check_string(n, e, opname, step, 9);
                break;
            }
            case 18: {
                if (x == y) break;
                STEP("plus-move");
                String<C> n = s[x] + Memory::Move(s[y]);
                MS        e = m[x] + m[y];
                m[y].clear();
                check_string(n, e, opname, step, 9);
                break;
            }
            case 19: {
                STEP("trim");
                String<C> n = String<C>::Trim(s[x]);
                check_string(n, trim_model(m[x]), opname, step, 9);
                break;
            }
            case 20:
            case 21: {
                STEP(m[x].empty() ? "stepback-on-empty" : "stepback");
                unsigned n = r.below(unsigned(m[x].size()) + 3);
                if (n <= m[x].size()) m[x].resize(m[x].size() - n);
                s[x].StepBack(SizeT(n));
                break;
            }
            case 22: {
                STEP("reverse");
                unsigned i = r.below(unsigned(m[x].size()) + 2);
                if (i < m[x].size()) std::reverse(m[x].begin() + i, m[x].end());
                s[x].Reverse(SizeT(i));
                break;
            }
            case 23:
            case 24: {
                STEP("insert-at");
                unsigned i  = r.below(unsigned(m[x].size()) + 2);
                C        ch = C('0' + r.below(10));
                if (i < m[x].size()) m[x].insert(m[x].begin() + i, ch);
                s[x].InsertAt(ch, SizeT(i));
                break;
            }
            case 25: {
                STEP("reset");
                m[x].clear();
                s[x].Reset();
                if (s[x].First() != nullptr) vf::fail(key(opname, "not-released").c_str(), "step=%u", step);
                break;
            }
            case 26: {
                STEP("detach");
                C *p = s[x].Detach();
                for (size_t i = 0; i < m[x].size(); ++i) {
                    if (p[i] != m[x][i]) vf::fail(key(opname, "content").c_str(), "step=%u", step);
                }
                Memory::Deallocate(p);
                m[x].clear();
                break;
            }
            case 27:
            case 28: {
                STEP(m[x].empty() ? "compare-literal-on-empty" : "compare-literal");
                MS   other = r.chance(1, 2) ? m[x] : t;
                bool e     = (m[x] == other);
                bool g     = (s[x] == other.c_str());
                bool ne    = (s[x] != other.c_str());
                if (g != e || ne == e) vf::fail(key(opname, "result").c_str(), "step=%u left=%s right=%s", step,
                                                vf::show(m[x].data(), m[x].size()).c_str(), vf::show(other.data(), other.size()).c_str());
                break;
            }
            case 29:
            case 30: {
                STEP("compare-string");
                bool e = (m[x] == m[y]);
                if ((s[x] == s[y]) != e || (s[x] != s[y]) == e || s[x].IsEqual(s[y].First(), s[y].Length()) != e)
                    vf::fail(key(opname, "result").c_str(), "step=%u", step);
                // ordering against another string and against a prefix / an extension of itself (String, view, C string)
                {
                    auto less = [](const MS &a, const MS &b) { return std::lexicographical_compare(a.begin(), a.end(), b.begin(), b.end()); };
                    MS   pre  = m[x].substr(0, r.below(unsigned(m[x].size()) + 1));
                    MS   ext  = m[x] + MS(1, C('a' + r.below(3)));
                    const MS *others[3] = {&m[y], &pre, &ext};
                    for (const MS *o : others) {
                        String<C>     so((const C *)o->data(), SizeT(o->size()));
                        StringView<C> vx(s[x].First(), s[x].Length()), vo(so.First(), so.Length());
                        bool lt = less(m[x], *o), gt = less(*o, m[x]), eq = (m[x] == *o);
                        bool ok = ((s[x] < so) == lt) && ((s[x] <= so) == (lt || eq)) && ((s[x] > so) == gt) && ((s[x] >= so) == (gt || eq)) &&
                                  ((vx < vo) == lt) && ((vx <= vo) == (lt || eq)) && ((vx > vo) == gt) && ((vx >= vo) == (gt || eq));
                        if (o->find(C(0)) == MS::npos)
                            ok = ok && ((s[x] < so.First()) == lt) && ((s[x] <= so.First()) == (lt || eq)) && ((s[x] > so.First()) == gt) && ((s[x] >= so.First()) == (gt || eq));
                        if (!ok) {
                            vf::fail(key(opname, "ordering").c_str(), "step=%u left=%s right=%s", step, vf::show(m[x].data(), m[x].size()).c_str(), vf::show(o->data(), o->size()).c_str());
                            break;
                        }
                    }
                }
                break;
            }
            case 31: {
                STEP("iterate");
                size_t i = 0;
                for (C ch : static_cast<const String<C> &>(s[x])) {
                    if (i >= m[x].size() || ch != m[x][i]) {
                        vf::fail(key(opname, "content").c_str(), "step=%u", step);
                        break;
                    }
                    ++i;
                }
                break;
            }
            default: {
                STEP("view");
                StringView<C> v1(s[x].First(), s[x].Length());
                StringView<C> v2(v1);
                StringView<C> v3(Memory::Move(v2));
                StringView<C> v4;
                v4 = v3;
                if (v2.First() != nullptr || v2.Length() != 0) vf::fail(key(opname, "moved-from-view").c_str(), "step=%u", step);
                if (v4.Length() != m[x].size() || !(v4 == v1) || (v4 != v3)) vf::fail(key(opname, "view-equality").c_str(), "step=%u", step);
                if (v4.IsEqual(t.data(), SizeT(t.size())) != (m[x] == t)) vf::fail(key(opname, "view-isequal").c_str(), "step=%u", step);
                if ((v4 == t.c_str()) != (m[x] == MS(t.c_str()))) vf::fail(key(opname, "view-literal").c_str(), "step=%u", step);
                if (v4.IsEmpty() != m[x].empty() || (v4.Last() == nullptr) != m[x].empty()) vf::fail(key(opname, "view-accessors").c_str(), "step=%u", step);
                v4.Reset();
                if (v4.Length() != 0 || v4.First() != nullptr) vf::fail(key(opname, "view-reset").c_str(), "step=%u", step);
            }
        }
        bool ok = true;
        for (unsigned v = 0; v < K && ok; ++v) ok = check_string(s[v], m[v], opname, step, v);
        if (!ok) break;
        vf::count("steps");
    }
}

// ------------------------------------------------------------------ StringStream<Char_T>
template <typename C>
static bool check_stream(const StringStream<C> &s, const std::basic_string<C> &m, const char *op, unsigned step, unsigned var) {
    if (s.Length() != m.size()) {
        vf::fail(key(op, "length").c_str(), "step=%u var=%u length=%u model=%zu", step, var, unsigned(s.Length()), m.size());
        return false;
    }
    if (s.Capacity() < s.Length()) {
        vf::fail(key(op, "capacity-below-length").c_str(), "step=%u var=%u", step, var);
        return false;
    }
    for (size_t i = 0; i < m.size(); ++i) {
        if (s.First()[i] != m[i]) {
            vf::fail(key(op, "content").c_str(), "step=%u var=%u index=%zu got=%s model=%s", step, var, i,
                     vf::show(s.First(), s.Length(), 80).c_str(), vf::show(m.data(), m.size(), 80).c_str());
            return false;
        }
    }
    if (s.IsEmpty() != m.empty() || (s.Last() == nullptr) != m.empty() || s.End() != s.First() + s.Length()) {
        vf::fail(key(op, "accessors").c_str(), "step=%u var=%u", step, var);
        return false;
    }
    return true;
}

template <typename C>
static void hist_stream(uint64_t c, const char *fam) {
    g_fam = fam;
    vf::Rng r(vf::g_seed, c);
    using MS = std::basic_string<C>;
    const unsigned K = 3;
    StringStream<C> s[K];
    MS              m[K];
    unsigned        steps  = r.range(10, 70);
    const char     *opname = "init";
    for (unsigned step = 0; step < steps; ++step) {
        unsigned x = r.below(K), y = r.below(K);
        unsigned op = r.below(36);
        MS       t  = rnd_str<C>(r, 12);
        switch (op) {
            case 0:
            case 1:
            case 2: {
                STEP("append-char");
                C ch = C('A' + r.below(26));
                m[x] += ch;
                if (r.chance(1, 2)) s[x] += ch;
                else s[x] << ch;
                break;
            }
            case 3:
            case 4: {
                STEP("append-literal");
                m[x] += t;
                if (r.chance(1, 2)) s[x] += t.c_str();
                else s[x] << t.c_str();
                break;
            }
            case 5:
            case 6: {
                STEP("write-range");
                m[x] += t;
                s[x].Write((const C *)t.data(), SizeT(t.size()));
                break;
            }
            case 7:
            case 8:
            case 9: {
                STEP(x == y ? "append-stream-self" : "append-stream");
                MS src = m[y];
                m[x] += src;
                if (r.chance(1, 2)) s[x] += s[y];
                else s[x] << s[y];
                break;
            }
            case 10: {
                STEP("append-string");
                String<C> str((const C *)t.data(), SizeT(t.size()));
                m[x] += t;
                if (r.chance(1, 2)) s[x] += str;
                else s[x] << str;
                break;
            }
            case 11: {
                STEP("append-view");
                StringView<C> v((const C *)t.data(), SizeT(t.size()));
                m[x] += t;
                s[x] << v;
                break;
            }
            case 12: {
                STEP(x == y ? "copy-assign-self" : "copy-assign");
                m[x] = MS(m[y]);
                s[x] = s[y];
                break;
            }
            case 13: {
                if (x == y) {
                    STEP("move-assign-self");
                    StringStream<C> &self = s[x];
                    s[x]                  = Memory::Move(self);
                    break;
                }
                STEP("move-assign");
                m[x] = m[y];
                m[y].clear();
                s[x] = Memory::Move(s[y]);
                if (s[y].First() != nullptr || s[y].Capacity() != 0) vf::fail(key(opname, "moved-from-not-empty").c_str(), "step=%u", step);
                break;
            }
            case 14: {
                STEP("copy-construct");
                StringStream<C> n(s[y]);
                check_stream(n, m[y], opname, step, 9);
                m[x] = m[y];
                s[x] = Memory::Move(n);
                break;
            }
            case 15: {
                if (x == y) break;
                STEP("move-construct");
                StringStream<C> n(Memory::Move(s[y]));
                m[x] = m[y];
                m[y].clear();
                s[x] = Memory::Move(n);
                break;
            }
            case 16: {
                STEP("assign-literal");
                m[x] = t;
                s[x] = t.c_str();
                break;
            }
            case 17: {
                STEP("assign-string");
                String<C> str((const C *)t.data(), SizeT(t.size()));
                m[x] = t;
                s[x] = str;
                break;
            }
            case 18: {
                STEP("assign-view");
                StringView<C> v((const C *)t.data(), SizeT(t.size()));
                m[x] = t;
                s[x] = v;
                break;
            }
            case 19: {
                STEP("clear");
                m[x].clear();
                s[x].Clear();
                break;
            }
            case 20: {
                STEP("reset");
                m[x].clear();
                s[x].Reset();
                if (s[x].Capacity() != 0 || s[x].First() != nullptr) vf::fail(key(opname, "not-released").c_str(), "step=%u", step);
                break;
            }
            case 21: {
                STEP("reserve");
                unsigned n = r.below(20);
                m[x].clear();
                s[x].Reserve(SizeT(n));
                if (s[x].Capacity() < n) vf::fail(key(opname, "capacity").c_str(), "step=%u", step);
                break;
            }
            case 22: {
                STEP("expect");
                unsigned n = r.below(20);
                s[x].Expect(SizeT(n));
                if (s[x].Capacity() < s[x].Length() + n) vf::fail(key(opname, "capacity").c_str(), "step=%u", step);
                break;
            }
            case 23: {
                STEP("stepback");
                unsigned n = r.below(unsigned(m[x].size()) + 3);
                if (n <= m[x].size()) m[x].resize(m[x].size() - n);
                s[x].StepBack(SizeT(n));
                break;
            }
            case 24: {
                STEP("reverse");
                unsigned i = r.below(unsigned(m[x].size()) + 2);
                if (i < m[x].size()) std::reverse(m[x].begin() + i, m[x].end());
                s[x].Reverse(SizeT(i));
                break;
            }
            case 25:
            case 26: {
                STEP("insert-at");
                unsigned i  = r.below(unsigned(m[x].size()) + 2);
                C        ch = C('0' + r.below(10));
                if (i < m[x].size()) m[x].insert(m[x].begin() + i, ch);
                s[x].InsertAt(ch, SizeT(i));
                break;
            }
            case 27: {
                STEP("buffer");
                unsigned n = r.below(10);
                C       *p = s[x].Buffer(SizeT(n));
                for (unsigned i = 0; i < n; ++i) p[i] = C('b');
                m[x] += MS(n, C('b'));
                break;
            }
            case 28: {
                STEP("set-length");
                if (r.chance(1, 2) && !m[x].empty()) {
                    unsigned n = r.below(unsigned(m[x].size()) + 1);
                    m[x].resize(n);
                    s[x].SetLength(SizeT(n));
                } else {
                    unsigned old = unsigned(m[x].size());
                    unsigned n   = old + r.below(9);
                    s[x].SetLength(SizeT(n));
                    for (unsigned i = old; i < n; ++i) s[x].Storage()[i] = C('g');
                    m[x] += MS(n - old, C('g'));
                }
                break;
            }
            case 29: {
                STEP("insert-null");
                s[x].InsertNull();
                if (s[x].First()[s[x].Length()] != C(0) || s[x].Capacity() <= s[x].Length()) vf::fail(key(opname, "terminator").c_str(), "step=%u", step);
                break;
            }
            case 30: {
                STEP("get-string");
                String<C> str = s[x].GetString();
                if (str.Length() != m[x].size() || (str.First() != nullptr && str.First()[str.Length()] != C(0)) ||
                    (str.Length() && MS(str.First(), str.Length()) != m[x]))
                    vf::fail(key(opname, "content").c_str(), "step=%u", step);
                m[x].clear();
                if (s[x].Length() != 0) vf::fail(key(opname, "stream-not-emptied").c_str(), "step=%u", step);
                break;
            }
            case 31: {
                STEP("get-string-view");
                StringView<C> v = s[x].GetStringView();
                if (v.Length() != m[x].size() || v.First()[v.Length()] != C(0) || MS(v.First(), v.Length()) != m[x])
                    vf::fail(key(opname, "content").c_str(), "step=%u", step);
                break;
            }
            case 32: {
                STEP("detach");
                C *p = s[x].Detach();
                for (size_t i = 0; i < m[x].size(); ++i) {
                    if (p[i] != m[x][i]) vf::fail(key(opname, "content").c_str(), "step=%u", step);
                }
                Memory::Deallocate(p);
                m[x].clear();
                if (s[x].Capacity() != 0) vf::fail(key(opname, "not-released").c_str(), "step=%u", step);
                break;
            }
            case 33: {
                STEP("construct-sized");
                unsigned        n = r.below(20);
                StringStream<C> z{SizeT(n)};
                if (z.Length() != 0 || z.Capacity() < n) vf::fail(key(opname, "capacity").c_str(), "step=%u", step);
                m[x].clear();
                s[x] = Memory::Move(z);
                break;
            }
            default: {
                STEP("compare");
                MS            other = r.chance(1, 2) ? m[x] : t;
                bool          e     = (m[x] == other);
                String<C>     str((const C *)other.data(), SizeT(other.size()));
                StringView<C> v((const C *)other.data(), SizeT(other.size()));
                if ((s[x] == other.c_str()) != (m[x] == MS(other.c_str())) || (s[x] != other.c_str()) == (m[x] == MS(other.c_str())))
                    vf::fail(key(opname, "literal").c_str(), "step=%u", step);
                if ((s[x] == str) != e || (s[x] != str) == e) vf::fail(key(opname, "string").c_str(), "step=%u", step);
                if ((s[x] == v) != e || (s[x] != v) == e) vf::fail(key(opname, "view").c_str(), "step=%u", step);
                if ((s[x] == s[y]) != (m[x] == m[y]) || (s[x] != s[y]) == (m[x] == m[y])) vf::fail(key(opname, "stream").c_str(), "step=%u", step);
                if (s[x].IsEqual(other.data(), SizeT(other.size())) != e) vf::fail(key(opname, "isequal").c_str(), "step=%u", step);
            }
        }
        bool ok = true;
        for (unsigned v = 0; v < K && ok; ++v) ok = check_stream(s[v], m[v], opname, step, v);
        if (!ok) break;
        vf::count("steps");
    }
}

// ------------------------------------------------------------------ Memory::Copy / SetToZero sweep
static void run_copy(uint64_t c) {
    g_fam             = "memory";
    const size_t len  = size_t(c);
    const size_t span = len + 32 + 64;
    std::vector<unsigned char> src(span + 64), dst(span + 64), ref(span + 64);
    for (size_t i = 0; i < src.size(); ++i) src[i] = (unsigned char)(vf::mix(i * 2654435761u + c) | 1);
    for (unsigned sa = 0; sa < 32; ++sa) {
        for (unsigned da = 0; da < 32; ++da) {
            for (size_t i = 0; i < dst.size(); ++i) dst[i] = (unsigned char)(0xA0 + (i % 7));
            ref = dst;
            memcpy(&ref[32 + da], &src[32 + sa], len);
            Memory::Copy(&dst[32 + da], &src[32 + sa], SizeT(len));
            if (dst != ref) {
                vf::fail("c14:memory:copy:bytes", "len=%zu src_misalign=%u dst_misalign=%u", len, sa, da);
                return;
            }
            vf::count("copies");
        }
        // zero fill at every misalignment
        for (size_t i = 0; i < dst.size(); ++i) dst[i] = (unsigned char)(0xA0 + (i % 7));
        ref = dst;
        memset(&ref[32 + sa], 0, len);
        Memory::SetToZero(&dst[32 + sa], SizeT(len));
        if (dst != ref) {
            vf::fail("c14:memory:zero:bytes", "len=%zu misalign=%u", len, sa);
            return;
        }
        vf::count("zero_fills");
    }
    // exact-size heap blocks: the red zones border source and destination
    {
        unsigned char *s = (unsigned char *)malloc(len ? len : 1), *d = (unsigned char *)malloc(len ? len : 1);
        for (size_t i = 0; i < len; ++i) s[i] = (unsigned char)i;
        Memory::Copy(d, s, SizeT(len));
        if (len && memcmp(d, s, len) != 0) vf::fail("c14:memory:copy:bytes", "len=%zu exact blocks", len);
        Memory::SetToZero(d, SizeT(len));
        for (size_t i = 0; i < len; ++i) {
            if (d[i] != 0) {
                vf::fail("c14:memory:zero:bytes", "len=%zu exact block", len);
                break;
            }
        }
        free(s);
        free(d);
    }
    vf::distinct(c);
    if (vf::want_sample() && (c % 517) == 5) vf::sample("Memory::Copy/SetToZero length %zu x 32 source x 32 destination misalignments, canaries both sides", len);
}

int main(int argc, char **argv) {
    vf::Args    a    = vf::parse_args(argc, argv);
    std::string mode = a.opts("mode", "hist");
    for (uint64_t c = a.from; c < a.to; ++c) {
        vf::begin_case(c);
        if (mode == "copy") {
            run_copy(c);
        } else {
            switch (c % 9) {
                case 0: hist_array<int>(c, "Array<int>"); break;
                case 1: hist_array<String<char>>(c, "Array<String>"); break;
                case 2: hist_array<Array<int>>(c, "Array<Array<int>>"); break;
                case 3: hist_string<char>(c, "String<char>"); break;
                case 4: hist_string<char16_t>(c, "String<char16_t>"); break;
                case 5: hist_string<char32_t>(c, "String<char32_t>"); break;
                case 6: hist_stream<char>(c, "StringStream<char>"); break;
                case 7: hist_stream<char16_t>(c, "StringStream<char16_t>"); break;
                default: hist_stream<char32_t>(c, "StringStream<char32_t>");
            }
            vf::distinct(vf::mix(c) ^ vf::g_seed);
            if (vf::want_sample() && (c % 9) == (vf::g_counters["cases"] % 9)) vf::sample("history #%" PRIu64 " on 3 aliased %s variables", c, g_fam);
        }
        vf::end_case();
    }
    return vf::finish(a);
}
