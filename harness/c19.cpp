// C19: BigInt vs an independent schoolbook reference (32-bit limbs, __int128 steps); a log of the first
// histories is replayed with python's int by the driver. DoubleSize<u8> exhaustively.
//   --opt mode=hist   a case = one history on one (word type, width) instantiation
//   --opt mode=ds8    case c = multiplier/divisor value c (0..255): all pairs / all (high<divisor, low)
//   --opt mode=ds64   a case = 4096 random 128/64 divisions and 64x64 multiplications vs __int128
#include "common.hpp"

#include <algorithm>

#include "BigInt.hpp"

using namespace Qentem;
using u128 = unsigned __int128;

// ------------------------------------------------------------------ reference integer
struct Ref {
    std::vector<uint32_t> w; // little endian, no trailing zeros
    void trim() {
        while (!w.empty() && w.back() == 0) w.pop_back();
    }
    static Ref from_u64(uint64_t v) {
        Ref r;
        if (v) r.w.push_back(uint32_t(v));
        if (v >> 32) r.w.push_back(uint32_t(v >> 32));
        return r;
    }
    unsigned bits() const {
        if (w.empty()) return 0;
        return unsigned(w.size() - 1) * 32 + (32 - unsigned(__builtin_clz(w.back())));
    }
    bool is_zero() const {
        return w.empty();
    }
    void add(uint64_t v) {
        uint64_t carry = 0;
        for (size_t i = 0; v != 0 || carry != 0; ++i) {
            if (i >= w.size()) w.push_back(0);
            uint64_t s = uint64_t(w[i]) + (v & 0xFFFFFFFFu) + carry;
            w[i]       = uint32_t(s);
            carry      = s >> 32;
            v >>= 32;
        }
        trim();
    }
    bool ge_u64(uint64_t v) const {
        if (w.size() > 2) return true;
        uint64_t x = (w.size() > 0 ? w[0] : 0) | (uint64_t(w.size() > 1 ? w[1] : 0) << 32);
        return x >= v;
    }
    void sub(uint64_t v) { // requires *this >= v
        int64_t borrow = 0;
        for (size_t i = 0; i < w.size(); ++i) {
            int64_t s = int64_t(w[i]) - int64_t(v & 0xFFFFFFFFu) - borrow;
            borrow    = s < 0;
            if (s < 0) s += (int64_t(1) << 32);
            w[i] = uint32_t(s);
            v >>= 32;
        }
        trim();
    }
    void mul(uint64_t m) {
        std::vector<uint32_t> o(w.size() + 3, 0);
        uint32_t              ml = uint32_t(m), mh = uint32_t(m >> 32);
        for (size_t i = 0; i < w.size(); ++i) {
            uint64_t c = 0;
            uint64_t p = uint64_t(w[i]) * ml + o[i];
            o[i]       = uint32_t(p);
            c          = p >> 32;
            size_t k   = i + 1;
            while (c) {
                uint64_t s = uint64_t(o[k]) + c;
                o[k]       = uint32_t(s);
                c          = s >> 32;
                ++k;
            }
            p        = uint64_t(w[i]) * mh + o[i + 1];
            o[i + 1] = uint32_t(p);
            c        = p >> 32;
            k        = i + 2;
            while (c) {
                uint64_t s = uint64_t(o[k]) + c;
                o[k]       = uint32_t(s);
                c          = s >> 32;
                ++k;
            }
        }
        w.swap(o);
        trim();
    }
    uint64_t divmod(uint64_t d) {
        u128 rem = 0;
        for (size_t i = w.size(); i-- > 0;) {
            u128 cur = (rem << 32) | w[i];
            w[i]     = uint32_t(cur / d);
            rem      = cur % d;
        }
        trim();
        return uint64_t(rem);
    }
    void shl(unsigned n) {
        if (w.empty()) return;
        unsigned              ws = n / 32, bs = n % 32;
        std::vector<uint32_t> o(w.size() + ws + 1, 0);
        for (size_t i = 0; i < w.size(); ++i) {
            uint64_t v = uint64_t(w[i]) << bs;
            o[i + ws] |= uint32_t(v);
            o[i + ws + 1] |= uint32_t(v >> 32);
        }
        w.swap(o);
        trim();
    }
    void shr(unsigned n) {
        unsigned ws = n / 32, bs = n % 32;
        if (ws >= w.size()) {
            w.clear();
            return;
        }
        std::vector<uint32_t> o(w.size() - ws, 0);
        for (size_t i = 0; i < o.size(); ++i) {
            uint64_t v = uint64_t(w[i + ws]);
            if (i + ws + 1 < w.size()) v |= uint64_t(w[i + ws + 1]) << 32;
            o[i] = uint32_t(v >> bs);
        }
        w.swap(o);
        trim();
    }
    void or_u64(uint64_t v) {
        while (w.size() < 2) w.push_back(0);
        w[0] |= uint32_t(v);
        w[1] |= uint32_t(v >> 32);
        trim();
    }
    void and_u64(uint64_t v) {
        uint64_t x = (w.size() > 0 ? w[0] : 0) | (uint64_t(w.size() > 1 ? w[1] : 0) << 32);
        *this      = from_u64(x & v);
    }
    unsigned first_bit() const {
        for (size_t i = 0; i < w.size(); ++i) {
            if (w[i]) return unsigned(i) * 32 + unsigned(__builtin_ctz(w[i]));
        }
        return 0;
    }
    uint64_t low64() const {
        return (w.size() > 0 ? w[0] : 0) | (uint64_t(w.size() > 1 ? w[1] : 0) << 32);
    }
    std::string hex() const {
        if (w.empty()) return "0";
        std::string s;
        char        b[16];
        for (size_t i = w.size(); i-- > 0;) {
            snprintf(b, sizeof(b), i + 1 == w.size() ? "%x" : "%08x", w[i]);
            s += b;
        }
        return s;
    }
};

static FILE *g_log = nullptr;

template <typename N, SizeT32 W>
static Ref read_big(const BigInt<N, W> &b) {
    Ref            r;
    const unsigned tw = sizeof(N) * 8;
    // value = words[0..Index()]
    for (SizeT32 i = b.Index() + 1; i-- > 0;) {
        r.shl(tw);
        r.add(uint64_t(b.Storage()[i]));
    }
    return r;
}

static uint64_t biased(vf::Rng &r, unsigned bits) {
    uint64_t mask = bits >= 64 ? ~uint64_t{0} : ((uint64_t{1} << bits) - 1);
    switch (r.below(10)) {
        case 0: return 0;
        case 1: return 1;
        case 2: return mask;
        case 3: return uint64_t{1} << r.below(bits);
        case 4: return (uint64_t{1} << (bits - 1)) | (r.next() & mask) | (r.chance(1, 2) ? 1 : 0); // top bit set
        case 5: return mask - r.below(4);
        case 6: return (r.next() & mask) | 1; // odd
        case 7: return (r.next() & mask) & ~uint64_t{1};
        case 8: return r.below(16);
        default: return r.next() & mask;
    }
}

template <typename N, SizeT32 W>
static void history(uint64_t c, const char *fam) {
    using B = BigInt<N, W>;
    vf::Rng        r(vf::g_seed, c);
    const unsigned tw   = sizeof(N) * 8;
    const unsigned cap  = B::TotalBits();
    B              b;
    Ref            m;
    unsigned       steps = r.range(10, 80);
    bool           logit = g_log != nullptr;
    if (logit) fprintf(g_log, "H %" PRIu64 " %s %u %u\n", c, fam, tw, cap);
    auto verify = [&](const char *op, unsigned step) -> bool {
        Ref got = read_big(b);
        if (logit) fprintf(g_log, "S %s\n", got.hex().c_str());
        if (got.w != m.w) {
            vf::fail((std::string("c19:") + fam + ":" + op + ":value").c_str(), "step=%u got=0x%s expected=0x%s index=%u", step, got.hex().c_str(), m.hex().c_str(), unsigned(b.Index()));
            return false;
        }
        unsigned ei = m.is_zero() ? 0 : (m.bits() - 1) / tw;
        if (b.Index() != ei) {
            vf::fail((std::string("c19:") + fam + ":" + op + ":index").c_str(), "step=%u index=%u expected=%u value=0x%s", step, unsigned(b.Index()), ei, m.hex().c_str());
            return false;
        }
        if (b.IsZero() != m.is_zero() || b.NotZero() == m.is_zero() || b.IsBig() != (ei != 0)) {
            vf::fail((std::string("c19:") + fam + ":" + op + ":predicates").c_str(), "step=%u value=0x%s", step, m.hex().c_str());
            return false;
        }
        return true;
    };
    for (unsigned step = 0; step < steps; ++step) {
        unsigned    op = r.below(28);
        const char *name = "";
        char        arg[96];
        arg[0] = 0;
        switch (op) {
            case 0: {
                name       = "set-word";
                N v        = N(biased(r, tw));
                b          = v;
                m          = Ref::from_u64(uint64_t(v));
                snprintf(arg, sizeof(arg), "%" PRIu64, uint64_t(v));
                break;
            }
            case 1: {
                if (cap < 64) continue;
                name       = "set-u64";
                uint64_t v = biased(r, 64);
                b          = v;
                m          = Ref::from_u64(v);
                snprintf(arg, sizeof(arg), "%" PRIu64, v);
                break;
            }
            case 2:
            case 3: {
                name       = "add-word";
                N   v      = N(biased(r, tw));
                Ref t      = m;
                t.add(uint64_t(v));
                if (t.bits() > cap) continue;
                vf::count("boundary_skips", 0);
                b += v;
                m = t;
                snprintf(arg, sizeof(arg), "%" PRIu64, uint64_t(v));
                break;
            }
            case 4: {
                name       = "add-u64";
                uint64_t v = biased(r, 64);
                Ref      t = m;
                t.add(v);
                if (t.bits() > cap) continue;
                b += v;
                m = t;
                snprintf(arg, sizeof(arg), "%" PRIu64, v);
                break;
            }
            case 5:
            case 6: {
                name = "sub-word";
                N v  = N(biased(r, tw));
                if (!m.ge_u64(uint64_t(v))) continue;
                b -= v;
                m.sub(uint64_t(v));
                snprintf(arg, sizeof(arg), "%" PRIu64, uint64_t(v));
                break;
            }
            case 7: {
                name       = "sub-u64";
                uint64_t v = biased(r, 64);
                if (!m.ge_u64(v)) continue;
                b -= v;
                m.sub(v);
                snprintf(arg, sizeof(arg), "%" PRIu64, v);
                break;
            }
            case 8:
            case 9:
            case 10: {
                name  = "mul-word";
                N   v = N(biased(r, tw));
                Ref t = m;
                t.mul(uint64_t(v));
                if (t.bits() > cap) continue;
                b *= v;
                m = t;
                snprintf(arg, sizeof(arg), "%" PRIu64, uint64_t(v));
                break;
            }
            case 11:
            case 12:
            case 13: {
                N v = N(biased(r, tw));
                if (v == 0) continue;
                snprintf(arg, sizeof(arg), "%" PRIu64, uint64_t(v));
                if (r.chance(1, 2)) {
                    name         = "divide";
                    N        rem = b.Divide(v);
                    uint64_t er  = m.divmod(uint64_t(v));
                    if (logit) fprintf(g_log, "R %" PRIu64 "\n", uint64_t(rem));
                    if (uint64_t(rem) != er) {
                        vf::fail((std::string("c19:") + fam + ":divide:remainder" + ((uint64_t(v) >> (tw - 1)) ? ":divisor-top-bit-set" : "")).c_str(),
                                 "step=%u divisor=%" PRIu64 " remainder=%" PRIu64 " expected=%" PRIu64, step, uint64_t(v), uint64_t(rem), er);
                        return;
                    }
                } else {
                    name = "div-assign";
                    b /= v;
                    m.divmod(uint64_t(v));
                }
                break;
            }
            case 14:
            case 15: {
                name       = "shift-left";
                unsigned n = r.chance(1, 3) ? (r.below(cap / tw + 1) * tw) : r.below(cap + 8);
                Ref      t = m;
                t.shl(n);
                if (t.bits() > cap || n >= cap + tw) continue;
                if (m.is_zero() && n >= tw) vf::count("shift_of_zero_by_whole_words");
                b <<= SizeT32(n);
                m = t;
                snprintf(arg, sizeof(arg), "%u", n);
                break;
            }
            case 16:
            case 17: {
                name       = "shift-right";
                unsigned n = r.chance(1, 3) ? (r.below(cap / tw + 1) * tw) : r.below(cap + 8);
                b >>= SizeT32(n);
                m.shr(n);
                snprintf(arg, sizeof(arg), "%u", n);
                break;
            }
            case 18: {
                name = "or-word";
                N v  = N(biased(r, tw));
                b |= v;
                m.or_u64(uint64_t(v));
                snprintf(arg, sizeof(arg), "%" PRIu64, uint64_t(v));
                break;
            }
            case 19: {
                if (cap >= 64 && r.chance(1, 2)) {
                    uint64_t v = biased(r, 64);
                    if (r.chance(1, 2)) {
                        name = "or-u64";
                        b |= v;
                        m.or_u64(v);
                    } else {
                        name = "and-u64";
                        b &= v;
                        m.and_u64(v);
                    }
                    snprintf(arg, sizeof(arg), "%" PRIu64, v);
                    break;
                }
                name = "and-word";
                N v  = N(biased(r, tw));
                b &= v;
                m.and_u64(uint64_t(v));
                snprintf(arg, sizeof(arg), "%" PRIu64, uint64_t(v));
                break;
            }
            case 20: {
                if (m.is_zero()) continue;
                name        = "bit-scans";
                unsigned fl = unsigned(b.FindLastBit()), ff = unsigned(b.FindFirstBit());
                if (logit) fprintf(g_log, "R %u %u\n", ff, fl);
                if (fl != m.bits() - 1) {
                    vf::fail((std::string("c19:") + fam + ":find-last-bit").c_str(), "step=%u value=0x%s got=%u expected=%u", step, m.hex().c_str(), fl, m.bits() - 1);
                    return;
                }
                if (ff != m.first_bit()) {
                    vf::fail((std::string("c19:") + fam + ":find-first-bit" + (m.first_bit() >= tw ? ":low-word-zero" : "")).c_str(), "step=%u value=0x%s got=%u expected=%u", step, m.hex().c_str(), ff, m.first_bit());
                    return;
                }
                break;
            }
            case 21: {
                name     = "compare";
                N    v   = r.chance(1, 2) ? N(m.low64()) : N(biased(r, tw));
                bool big = m.bits() > tw;
                uint64_t x = m.low64();
                bool lt = !big && x < uint64_t(v), eq = !big && x == uint64_t(v), gt = big || x > uint64_t(v);
                if ((b < v) != lt || (b <= v) != (lt || eq) || (b > v) != gt || (b >= v) != (gt || eq) || (b == v) != eq || (b != v) == eq ||
                    (v > b) != lt || (v >= b) != (lt || eq) || (v < b) != gt || (v <= b) != (gt || eq) || (v == b) != eq || (v != b) == eq) {
                    vf::fail((std::string("c19:") + fam + ":compare").c_str(), "step=%u value=0x%s word=%" PRIu64, step, m.hex().c_str(), uint64_t(v));
                    return;
                }
                snprintf(arg, sizeof(arg), "%" PRIu64, uint64_t(v));
                break;
            }
            case 22: {
                name = "narrow";
                uint64_t e = m.low64();
                if (uint8_t(b) != uint8_t(e) || uint16_t(b) != uint16_t(e) || uint32_t(b) != uint32_t(e) || b.Number() != N(e)) {
                    vf::fail((std::string("c19:") + fam + ":narrow").c_str(), "step=%u value=0x%s", step, m.hex().c_str());
                    return;
                }
                if (cap >= 64 && (unsigned long long)(b) != (unsigned long long)e) {
                    vf::fail((std::string("c19:") + fam + ":narrow:to-u64").c_str(), "step=%u value=0x%s got=%llx", step, m.hex().c_str(), (unsigned long long)(b));
                    return;
                }
                break;
            }
            case 23: {
                name = "copy-move";
                B t(b);
                B u;
                u = t;
                B v2(static_cast<B &&>(t));
                if (!t.IsZero()) vf::fail((std::string("c19:") + fam + ":moved-from-not-zero").c_str(), "step=%u", step);
                b = static_cast<B &&>(v2);
                if (read_big(u).w != m.w) vf::fail((std::string("c19:") + fam + ":copy").c_str(), "step=%u", step);
                break;
            }
            case 26:
            case 27: {
                // another object holding an unrelated value (usually shorter or longer than the current one) is copy- or
                // move-assigned over this one; later growth (carries, shifts, or) shows any word left behind
                name       = "assign-other";
                uint64_t x = biased(r, cap < 64 ? cap : 64);
                unsigned n = r.chance(1, 2) ? 0 : r.below(cap);
                Ref      t = Ref::from_u64(x);
                t.shl(n);
                if (t.bits() > cap) continue;
                B o;
                if (cap >= 64) o = x;
                else o = N(x);
                o <<= SizeT32(n);
                if (read_big(o).w != t.w) {
                    vf::fail((std::string("c19:") + fam + ":assign-other:source").c_str(), "step=%u x=%" PRIu64 " n=%u", step, x, n);
                    return;
                }
                if (op == 26) {
                    b = o;
                    if (read_big(o).w != t.w) vf::fail((std::string("c19:") + fam + ":assign-other:source-changed").c_str(), "step=%u", step);
                } else {
                    b = static_cast<B &&>(o);
                    if (!o.IsZero() || o.Index() != 0) vf::fail((std::string("c19:") + fam + ":moved-from-not-zero").c_str(), "step=%u", step);
                }
                m = t;
                snprintf(arg, sizeof(arg), "%" PRIu64 " %u", x, n);
                break;
            }
            case 24: {
                name = "clear";
                b.Clear();
                m = Ref();
                break;
            }
            default: {
                // build a large value quickly: multiply by the word maximum a few times, or shift
                name       = "grow";
                unsigned n = r.below(cap);
                Ref      t = m;
                if (t.is_zero()) t = Ref::from_u64(1);
                Ref t2 = t;
                t2.shl(n);
                if (t2.bits() > cap) continue;
                if (m.is_zero()) b += N(1);
                b <<= SizeT32(n);
                m = t2;
                snprintf(arg, sizeof(arg), "%u", n);
            }
        }
        if (vf::g_verbose) fprintf(stderr, "TRACE %s step %u: %s %s\n", fam, step, name, arg);
        if (logit) fprintf(g_log, "O %s %s\n", name, arg);
        vf::g_counters[std::string("op_") + std::to_string(tw) + ":" + name] += 1;
        if (!verify(name, step)) return;
        vf::count("steps");
    }
}

static void ds8(uint64_t c) {
    using D = DoubleSize<uint8_t, 8U>;
    uint8_t x = uint8_t(c);
    for (unsigned a = 0; a < 256; ++a) {
        uint8_t  n  = uint8_t(a);
        uint8_t  hi = D::Multiply(n, x);
        unsigned e  = a * unsigned(x);
        vf::count("ds8_multiplications");
        if (n != uint8_t(e) || hi != uint8_t(e >> 8)) vf::fail("c19:DoubleSize<u8>:multiply", "%u*%u", a, unsigned(x));
    }
    if (x != 0) {
        for (unsigned hi = 0; hi < x; ++hi) {
            for (unsigned lo = 0; lo < 256; ++lo) {
                uint8_t  h = uint8_t(hi), l = uint8_t(lo);
                unsigned d = (hi << 8) | lo;
                D::Divide(h, l, x, 0);
                vf::count("ds8_divisions");
                if (l != uint8_t(d / x) || h != uint8_t(d % x)) vf::fail("c19:DoubleSize<u8>:divide", "%u/%u", d, unsigned(x));
            }
        }
    }
    vf::distinct(c);
    if (vf::want_sample() && c % 60 == 3) vf::sample("DoubleSize<u8>: all 256 multiplicands x %u, all (high<%u, low) / %u", unsigned(x), unsigned(x), unsigned(x));
}

template <typename N, typename Wide>
static void ds_wide(vf::Rng &r, const char *fam) {
    const unsigned tw = sizeof(N) * 8;
    using D           = DoubleSize<N, sizeof(N) * 8>;
    for (int i = 0; i < 1024; ++i) {
        N a = N(biased(r, tw)), b = N(biased(r, tw));
        N n  = a;
        N hi = D::Multiply(n, b);
        Wide e = Wide(a) * Wide(b);
        vf::count("ds_wide_multiplications");
        if (n != N(e) || hi != N(e >> tw)) {
            vf::fail((std::string("c19:") + fam + ":multiply").c_str(), "%" PRIu64 " * %" PRIu64, uint64_t(a), uint64_t(b));
            return;
        }
        N d = N(biased(r, tw));
        if (d == 0) continue;
        N h = N(biased(r, tw) % d), l = N(biased(r, tw));
        Wide dv = (Wide(h) << tw) | Wide(l);
        N    hh = h, ll = l;
        SizeT32 sh = (tw == 64) ? SizeT32((tw - 1) - Platform::FindLastBit(d)) : 0;
        D::Divide(hh, ll, d, sh);
        vf::count("ds_wide_divisions");
        if (ll != N(dv / d) || hh != N(dv % d)) {
            vf::fail((std::string("c19:") + fam + ":divide" + ((uint64_t(d) >> (tw - 1)) ? ":divisor-top-bit-set" : "")).c_str(),
                     "(%" PRIu64 "<<%u | %" PRIu64 ") / %" PRIu64 " -> q=%" PRIu64 " r=%" PRIu64 " expected q=%" PRIu64 " r=%" PRIu64, uint64_t(h), tw, uint64_t(l), uint64_t(d),
                     uint64_t(ll), uint64_t(hh), uint64_t(N(dv / d)), uint64_t(N(dv % d)));
            return;
        }
    }
}

int main(int argc, char **argv) {
    vf::Args    a    = vf::parse_args(argc, argv);
    std::string mode = a.opts("mode", "hist");
    long        logn = a.optl("log", 0);
    if (!a.outfile.empty() && logn > 0) g_log = fopen((a.outfile + "." + std::to_string(a.from)).c_str(), "w");
    for (uint64_t c = a.from; c < a.to; ++c) {
        vf::begin_case(c);
        if (mode == "ds8") {
            ds8(c);
        } else if (mode == "ds64") {
            vf::Rng r(vf::g_seed, c);
            ds_wide<uint64_t, u128>(r, "DoubleSize<u64>");
            ds_wide<uint32_t, uint64_t>(r, "DoubleSize<u32>");
            ds_wide<uint16_t, uint32_t>(r, "DoubleSize<u16>");
            vf::distinct(vf::mix(c));
        } else {
            FILE *keep = g_log;
            if (uint64_t(logn) <= c) g_log = nullptr;
            switch (c % 14) {
                case 0: history<uint8_t, 64U>(c, "BigInt<u8,64>"); break;
                case 1: history<uint8_t, 128U>(c, "BigInt<u8,128>"); break;
                case 2: history<uint16_t, 128U>(c, "BigInt<u16,128>"); break;
                case 3: history<uint16_t, 256U>(c, "BigInt<u16,256>"); break;
                case 4: history<uint32_t, 64U>(c, "BigInt<u32,64>"); break;
                case 5: history<uint32_t, 256U>(c, "BigInt<u32,256>"); break;
                case 6: history<uint32_t, 1024U>(c, "BigInt<u32,1024>"); break;
                case 7: history<unsigned long long, 64U>(c, "BigInt<u64,64>"); break;
                case 8: history<unsigned long long, 128U>(c, "BigInt<u64,128>"); break;
                case 9: history<unsigned long long, 256U>(c, "BigInt<u64,256>"); break;
                case 10: history<unsigned long long, 1216U>(c, "BigInt<u64,1216>"); break;
                case 11: history<unsigned long long, 2048U>(c, "BigInt<u64,2048>"); break;
                case 12: history<unsigned long long, 100U>(c, "BigInt<u64,100>"); break;
                default: history<uint32_t, 2048U>(c, "BigInt<u32,2048>");
            }
            g_log = keep;
            vf::distinct(vf::mix(c) ^ vf::g_seed);
            if (vf::want_sample()) vf::sample("history #%" PRIu64 " (instantiation %u of 14): set/add/sub/mul/divide/shift/or/and/scan/compare/narrow steps checked against the reference integer after every step", c, unsigned(c % 14));
        }
        vf::end_case(false);
    }
    if (g_log) fclose(g_log);
    return vf::finish(a);
}
