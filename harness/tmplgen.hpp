// Template text generators (well-formed grammar, mutations, token soup, narrow-field family) and the value pool.
#ifndef VERIF_TMPLGEN_HPP
#define VERIF_TMPLGEN_HPP

#include "vmodel.hpp"

#include "Template.hpp"

namespace tg {
using namespace Qentem;

struct G {
    vf::Rng &r;
    std::vector<std::string> loopvars; // enclosing loop value names
    unsigned                 loops = 0;
    unsigned                 rootloops = 0;
    explicit G(vf::Rng &rr) : r(rr) {
    }

    std::string name() {
        static const char *n[] = {"a", "b", "c", "s", "t", "f", "z", "e", "list", "obj", "n1", "zero", "neg", "big", "recs", "arr2", "missing", "0", "1", "2", "name", "k", "d", "ph"};
        return n[r.below(24)];
    }
    std::string path() {
        std::string p;
        if (!loopvars.empty() && r.chance(1, 2)) p = loopvars[r.below(uint32_t(loopvars.size()))];
        else p = name();
        unsigned n = r.chance(2, 3) ? 0 : r.range(1, 3);
        for (unsigned i = 0; i < n; ++i) {
            static const char *idx[] = {"0", "1", "2", "a", "b", "c", "y", "m", "9", "missing", ""};
            p += "[";
            p += idx[r.below(11)];
            p += "]";
        }
        return p;
    }
    std::string number() {
        switch (r.below(8)) {
            case 0: return "0";
            case 1: return std::to_string(r.below(10));
            case 2: return std::to_string(r.below(100000));
            case 3: return "-" + std::to_string(r.below(50));
            case 4: return std::to_string(r.below(100)) + "." + std::to_string(r.below(100));
            case 5: return "1e" + std::to_string(r.below(5));
            case 6: return "18446744073709551615";
            default: return "2";
        }
    }
    std::string expr(unsigned depth) {
        static const char *ops[] = {"+", "-", "*", "/", "%", "^", "&", "|", "&&", "||", "==", "!=", ">", ">=", "<", "<="};
        std::string        s;
        unsigned           terms = r.range(1, 4);
        for (unsigned i = 0; i < terms; ++i) {
            if (i) {
                if (r.chance(1, 2)) s += " ";
                s += ops[r.below(16)];
                if (r.chance(1, 2)) s += " ";
            }
            unsigned k = r.below(depth == 0 ? 6 : 8);
            if (k < 3) s += number();
            else if (k < 6) s += "{var:" + path() + "}";
            else s += "(" + expr(depth - 1) + ")";
        }
        return s;
    }
    std::string inline_tag() {
        switch (r.below(3)) {
            case 0: return "{var:" + path() + "}";
            case 1: return "{raw:" + path() + "}";
            default: return "{math:" + expr(1) + "}";
        }
    }
    std::string text() {
        static const char *t[] = {"", " ", "x", "Hello ", "<b>", "</b>", "&amp;", "\n", "a=b", "1 < 2", "{", "}", "ok, ", "<br/>", "'q'", "\"Q\""};
        std::string        s;
        unsigned           n = r.below(3);
        for (unsigned i = 0; i < n; ++i) s += t[r.below(16)];
        return s;
    }
    char quote() {
        return r.chance(3, 4) ? '"' : '\'';
    }
    std::string part(unsigned depth) {
        unsigned k = r.below(depth == 0 ? 7 : 12);
        switch (k) {
            case 0:
            case 1: return text();
            case 2: return "{var:" + path() + "}";
            case 3: return "{raw:" + path() + "}";
            case 4: return std::string("{math:") + (r.chance(1, 3) ? " " : "") + expr(2) + (r.chance(1, 3) ? " " : "") + "}";
            case 5: {
                std::string s = "{svar:" + std::string(r.chance(2, 3) ? "ph" : name().c_str());
                unsigned    n = r.below(5);
                for (unsigned i = 0; i < n; ++i) s += ", " + inline_tag();
                return s + "}";
            }
            case 6: {
                char        q  = quote();
                std::string c  = std::string("case=") + q + expr(1) + q;
                std::string t  = std::string("true=") + q + (r.chance(1, 2) ? text() : "") + (r.chance(1, 2) ? inline_tag() : "") + text() + q;
                std::string f  = std::string("false=") + q + (r.chance(1, 2) ? inline_tag() : "no") + q;
                std::string a[3] = {c, t, f};
                unsigned    order = r.below(6);
                static const int perm[6][3] = {{0, 1, 2}, {0, 2, 1}, {1, 0, 2}, {1, 2, 0}, {2, 0, 1}, {2, 1, 0}};
                std::string s = "{if";
                unsigned    keep = r.chance(1, 4) ? 2 : 3;
                for (unsigned i = 0; i < 3; ++i) {
                    int x = perm[order][i];
                    if (keep == 2 && x == 2) continue;
                    s += " " + a[x];
                }
                return s + "}";
            }
            case 7:
            case 8: {
                char        q = quote();
                std::string s = std::string("<if case=") + q + expr(2) + q + ">" + body(depth - 1);
                unsigned    n = r.below(3);
                for (unsigned i = 0; i < n; ++i) {
                    s += r.chance(1, 2) ? "<else if case=" : "<elseif case=";
                    s += q + expr(1) + q;
                    s += r.chance(1, 2) ? " />" : ">";
                    s += body(depth - 1);
                }
                if (r.chance(1, 2)) s += (r.chance(1, 2) ? "<else />" : "<else>") + body(depth - 1);
                return s + "</if>";
            }
            default: {
                char        q  = quote();
                std::string lv = "v" + std::to_string(++loops);
                std::string s  = "<loop";
                // at most two nested loops without a set (they iterate over the whole root value): the
                // output of deeper ones grows as 24^depth and says nothing new about safety
                bool        has_set = r.chance(3, 4) || rootloops >= 2;
                if (has_set) s += std::string(" set=") + q + (rootloops >= 2 && r.chance(1, 2) ? std::string(r.chance(1, 2) ? "list" : "one") : path()) + q;
                else ++rootloops;
                s += std::string(" value=") + q + lv + q;
                if (r.chance(1, 6)) s += std::string(" group=") + q + (r.chance(1, 2) ? "y" : "m") + q;
                if (r.chance(1, 5)) s += std::string(" sort=") + q + (r.chance(1, 2) ? "ascend" : "descend") + q;
                s += ">";
                loopvars.push_back(lv);
                s += body(depth - 1);
                loopvars.pop_back();
                if (!has_set) --rootloops;
                return s + "</loop>";
            }
        }
    }
    std::string body(unsigned depth) {
        std::string s;
        unsigned    n = r.range(1, 4);
        for (unsigned i = 0; i < n; ++i) s += part(depth);
        return s;
    }
};

static const char *const kTokens[] = {"{var:", "{raw:", "{math:", "{svar:", "{if ", "{if", "<loop", "<loop ", "</loop>", "<if", "<if ", "</if>", "<else", "<else />", "<elseif ",
                                      "<else if ", "case=", "case=\"", "true=", "true=\"", "false=", "false='", "set=\"", "value=\"", "group=\"", "sort=\"", "}", ">", "/>", "\"", "'",
                                      "(", ")", "[", "]", "% 0", "%0", "/0", "^", "^-1", "&&", "||", "==", "!=", ">=", "<=", " ", ",", "a", "list", "v1", "{var:a}", "{var:list[0]}", "1", "0",
                                      "-", "+", "*", "{", "<", "{0}", "{9}", ":", "ascend", "descend", "\n", "e", "."};
static const unsigned kTokenCount = sizeof(kTokens) / sizeof(kTokens[0]);

inline std::string mutate(vf::Rng &r, std::string m) {
    unsigned n = 1 + r.below(3);
    for (unsigned j = 0; j < n; ++j) {
        if (m.empty()) {
            m = kTokens[r.below(kTokenCount)];
            continue;
        }
        size_t pos = r.below(uint32_t(m.size()));
        switch (r.below(9)) {
            case 0: m.erase(pos, 1 + r.below(3)); break;
            case 1: m.insert(pos, 1, m[pos]); break;
            case 2:
                if (pos + 1 < m.size()) std::swap(m[pos], m[pos + 1]);
                break;
            case 3: m[pos] = (m[pos] == '"') ? '\'' : '"'; break;
            case 4: m.insert(pos, kTokens[r.below(kTokenCount)]); break;
            case 5: {
                // delete a whole token-ish run (attribute or closing tag)
                size_t e = m.find_first_of(" >}\"'", pos);
                if (e == std::string::npos) e = m.size();
                m.erase(pos, e - pos);
                break;
            }
            case 6: m[pos] = char(r.below(256)); break;
            case 7: {
                size_t a = r.below(uint32_t(m.size())), b = r.below(uint32_t(m.size()));
                if (a > b) std::swap(a, b);
                m.insert(pos, m.substr(a, std::min<size_t>(b - a, 60)));
                break;
            }
            default: m.resize(pos); // truncate
        }
    }
    if (m.size() > 4096) m.resize(4096);
    return m;
}

inline std::string soup(vf::Rng &r) {
    std::string s;
    unsigned    n = r.range(1, 30);
    for (unsigned i = 0; i < n; ++i) s += kTokens[r.below(kTokenCount)];
    return s;
}

// narrow-field family: names/headers/bodies around the 8/16-bit limits of the tag records
inline std::string narrow(vf::Rng &r, uint64_t c) {
    auto rep = [](const char *s, size_t n) {
        std::string o;
        while (o.size() < n) o += s;
        o.resize(n);
        return o;
    };
    static const size_t L8[]  = {254, 255, 256, 257, 300, 511, 512};
    static const size_t L16[] = {65534, 65535, 65536, 65537, 70000};
    switch (c % 12) {
        case 10:
        case 11: {
            // 8..14 open tags, up to four of them loops over sets with several items, the rest <if>: the per-level loop
            // records are created while enclosing loops are in the middle of their iteration
            unsigned    depth = 8 + r.below(7), loops = 0;
            std::string s, e;
            for (unsigned i = 0; i < depth; ++i) {
                bool lp = (i == 0) || (i + 1 == depth) || (loops < 4 && r.chance(1, 3));
                if (lp && loops < 4) {
                    ++loops;
                    s += std::string("<loop set=\"") + (r.chance(1, 2) ? "arr2" : "recs") + "\" value=\"w" + std::to_string(i) + "\">";
                    e = "</loop>" + e;
                } else {
                    s += "<if case=\"1\">";
                    e = "</if>" + e;
                }
            }
            return "[" + s + "{var:w0[0]}:{var:a};" + e + "]";
        }
        case 0: return "{var:" + rep("n", L8[r.below(7)]) + "}";
        case 1: return "{raw:" + rep("list[0]", L8[r.below(7)]) + "}";
        case 2: return "<loop " + rep(" ", L8[r.below(7)]) + "set=\"list\" value=\"v\">{var:v}</loop>";
        case 3: return "<loop set=\"list\" " + rep(" ", L8[r.below(7)]) + "value=\"v\" group=\"y\">{var:v}</loop>";
        case 4: return "<loop set=\"list\" value=\"" + rep("v", L8[r.below(7)]) + "\">{var:" + rep("v", 8) + "}</loop>";
        case 5: return "<loop set=\"list\" value=\"v\">" + rep("x", L16[r.below(5)]) + "{var:v}</loop>";
        case 6: return "{if case=\"1\" true=\"" + rep("y", L16[r.below(5)]) + "\" false=\"{var:a}\"}";
        case 7: {
            std::string s = "{svar:ph";
            unsigned    n = 9 + r.below(5);
            for (unsigned i = 0; i < n; ++i) s += ", {var:a}";
            return s + "}";
        }
        case 8: {
            unsigned    depth = r.chance(1, 2) ? 255 + r.below(3) : 16 + r.below(16);
            std::string s, e;
            for (unsigned i = 0; i < depth; ++i) {
                s += "<if case=\"1\">";
                e += "</if>";
            }
            return s + "{var:a}" + e;
        }
        default: {
            unsigned    depth = r.chance(1, 2) ? 255 + r.below(3) : 8 + r.below(8);
            std::string s, e;
            for (unsigned i = 0; i < depth; ++i) {
                s += "<loop set=\"one\" value=\"v" + std::to_string(i) + "\">";
                e += "</loop>";
            }
            return s + "{var:v0}" + e;
        }
    }
}

// ------------------------------------------------------------------ value pool
template <typename C>
struct Pool {
    std::vector<Value<C>> v;
    std::vector<Value<C>> targets; // pointees of the pointer_sets value (never reallocated)
    unsigned              pointer_sets = 0;
    static std::basic_string<C> W(const char *s) {
        return vm::widen<C>(s);
    }
    Pool() {
        v.reserve(64); // members below keep pointers to earlier elements
        static const char *docs[] = {
            "{\"a\":5,\"b\":-3,\"c\":2.5,\"s\":\"str<&>\\\"'\",\"t\":true,\"f\":false,\"z\":null,\"e\":\"\",\"list\":[1,2,\"x\",[3,4],{\"a\":1}],"
            "\"obj\":{\"a\":1,\"b\":\"two\",\"c\":[1,2]},\"n1\":\"12\",\"zero\":0,\"neg\":-1,\"big\":1e300,\"recs\":[{\"y\":1,\"m\":2},{\"m\":5,\"y\":1},{\"y\":\"q\",\"m\":0}],"
            "\"arr2\":[[1,2],[3]],\"name\":\"N\",\"k\":\"v\",\"d\":11150.001,\"ph\":\"P {0} and {1}; {2}{9}{x}{\",\"one\":[1],\"0\":\"zero-key\"}",
            "[0,1,2,3]", "[\"a\",\"b\",\"&<\"]", "[[1,2],[3,[4,5]],{\"a\":[6]}]", "{}", "[]",
            "{\"a\":\"0\",\"b\":\"\",\"c\":\"abc\",\"list\":[],\"obj\":{},\"ph\":\"{0}{0}{1}\",\"one\":[[]]}",
            "[{\"y\":2019,\"m\":4},{\"y\":2020,\"m\":1},{\"y\":2017,\"m\":1},{\"y\":2020,\"m\":5}]",
            "{\"a\":18446744073709551615,\"b\":-9223372036854775808,\"c\":1e-300,\"list\":[0,0.0,-0.0,\"0\"],\"zero\":0.0,\"neg\":-0.5,\"n1\":\"1e2\",\"big\":\"x\",\"one\":{\"k\":1}}",
            "{\"list\":{\"k1\":[],\"k2\":{},\"k3\":1},\"a\":[1,2,3],\"obj\":[{\"a\":{\"a\":{\"a\":{\"a\":1}}}}],\"recs\":[{\"y\":true},{\"y\":null},{\"y\":1.5}],\"one\":[\"s\"]}",
            "7", "\"just a string\"", "true", "null",
        };
        for (const char *d : docs) {
            std::basic_string<C> w = W(d);
            v.push_back(JSON::Parse(w.data(), SizeT(w.size())));
        }
        // removed members / holes / pointer-to-value members
        {
            std::basic_string<C> w = W(docs[0]);
            Value<C>             x = JSON::Parse(w.data(), SizeT(w.size()));
            x.Remove(W("b").c_str());
            x.Remove(W("list").c_str());
            x[W("obj").c_str()].Remove(W("a").c_str());
            x[W("arr2").c_str()].RemoveIndex(SizeT(0));
            x[W("recs").c_str()][SizeT(1)].Remove(W("y").c_str());
            v.push_back(Memory::Move(x));
        }
        {
            Value<C> x;
            x[W("a").c_str()] = 1;
            x[W("undefined-member").c_str()];
            x[W("list").c_str()][SizeT(3)] = 4; // holes at 0..2
            v.push_back(Memory::Move(x));
        }
        {
            Value<C> x;
            x[W("a").c_str()].SetPointerToValue(&v[0]);
            x[W("list").c_str()].AddPointerToValue(&v[1]);
            x[W("list").c_str()].AddPointerToValue(&v[0]);
            x[W("obj").c_str()].SetPointerToValue(&v[3]);
            v.push_back(Memory::Move(x));
        }
        {
            // every set name the generator uses, reached through a pointer-to-value and NOT in sorted order: a sort= or
            // group= on such a set has to work on a private copy (index of this value: pointer_sets)
            static const char *tdocs[] = {"[30,10,20,\"b\",\"a\",5.5]", "[{\"y\":3,\"m\":1},{\"y\":1,\"m\":2},{\"y\":2,\"m\":0},{\"y\":1,\"m\":9}]",
                                          "{\"z\":1,\"a\":2,\"m\":3}", "[[3],[1,2],[0]]", "[9]"}; // ("one" stays a one-item set: the 255-deep loop family multiplies by its size)
            static const char *names[] = {"list", "recs", "obj", "arr2", "one"};
            targets.reserve(8);
            Value<C> x;
            for (unsigned i = 0; i < 5; ++i) {
                std::basic_string<C> w = W(tdocs[i]);
                targets.push_back(JSON::Parse(w.data(), SizeT(w.size())));
                x[W(names[i]).c_str()].SetPointerToValue(&targets.back());
            }
            x[W("a").c_str()] = 5;
            x[W("s").c_str()] = W("str<&>").c_str();
            pointer_sets = unsigned(v.size());
            v.push_back(Memory::Move(x));
        }
        // a few random trees
        vf::Rng      r(12345);
        vm::Gen<C>   g(r);
        for (int i = 0; i < 12; ++i) {
            Value<C>   t;
            vm::MV<C>  m;
            g.tree(t, m, 3, true, unsigned(i));
            v.push_back(Memory::Move(t));
        }
    }
};

} // namespace tg
#endif
