// C03: {var:} output is HTML-safe for every string; {raw:} verbatim; escape off => {var:} == {raw:}.
//   --opt mode=direct  case c: exhaustive block of strings over the 18-unit alphabet (see index decoding) / random strings
//   --opt mode=render  case c: payload strings pushed through every printing path of the renderer
#include "common.hpp"

#include "JSON.hpp"
#include "Template.hpp"

using namespace Qentem;

static const char kAlpha[] = "&<>\"';amplt gqu os#x"; // 18 distinct + space dup avoided below
static const char kAlphabet[18] = {'&', '<', '>', '"', '\'', ';', 'a', 'm', 'p', 'l', 't', 'g', 'q', 'u', 'o', 's', '#', 'x'};

template <typename C>
static std::basic_string<C> decode(const std::basic_string<C> &s) {
    static const char *ent[5] = {"&amp;", "&lt;", "&gt;", "&quot;", "&apos;"};
    static const char  rep[5] = {'&', '<', '>', '"', '\''};
    std::basic_string<C> o;
    size_t               i = 0;
    while (i < s.size()) {
        bool hit = false;
        if (s[i] == C('&')) {
            for (int e = 0; e < 5 && !hit; ++e) {
                size_t n = strlen(ent[e]);
                if (i + n <= s.size()) {
                    bool eq = true;
                    for (size_t k = 0; k < n; ++k) eq = eq && (s[i + k] == C(ent[e][k]));
                    if (eq) {
                        o += C(rep[e]);
                        i += n;
                        hit = true;
                    }
                }
            }
        }
        if (!hit) o += s[i++];
    }
    return o;
}

// returns nullptr when safe, otherwise a description
template <typename C>
static const char *unsafe(const std::basic_string<C> &s) {
    static const char *ent[5] = {"&amp;", "&lt;", "&gt;", "&quot;", "&apos;"};
    for (size_t i = 0; i < s.size(); ++i) {
        C ch = s[i];
        if (ch == C('<')) return "contains <";
        if (ch == C('>')) return "contains >";
        if (ch == C('"')) return "contains \"";
        if (ch == C('\'')) return "contains '";
        if (ch == C('&')) {
            bool ok = false;
            for (int e = 0; e < 5 && !ok; ++e) {
                size_t n = strlen(ent[e]);
                if (i + n <= s.size()) {
                    bool eq = true;
                    for (size_t k = 0; k < n; ++k) eq = eq && (s[i + k] == C(ent[e][k]));
                    ok = eq;
                }
            }
            if (!ok) return "bare & (not one of the five entities)";
        }
    }
    return nullptr;
}

template <typename C>
static void check_escaped(const std::basic_string<C> &src, const std::basic_string<C> &out, const char *path) {
    std::string k = std::string("c03:") + path + ":";
    vf::count("escaped_strings");
    if (Config::AutoEscapeHTML) {
        const char *u = unsafe(out);
        if (u != nullptr) {
            vf::fail((k + "unsafe-output").c_str(), "%s: source=%s output=%s (unit=%zu)", u, vf::show(src.data(), src.size()).c_str(), vf::show(out.data(), out.size()).c_str(), sizeof(C));
            return;
        }
        if (decode(out) != decode(src)) {
            vf::fail((k + "decodes-differently").c_str(), "source=%s output=%s", vf::show(src.data(), src.size()).c_str(), vf::show(out.data(), out.size()).c_str());
            return;
        }
    } else if (out != src) {
        vf::fail((k + "escape-off-not-verbatim").c_str(), "source=%s output=%s", vf::show(src.data(), src.size()).c_str(), vf::show(out.data(), out.size()).c_str());
    }
}

template <typename C>
static std::basic_string<C> esc_direct(const std::basic_string<C> &s) {
    StringStream<C> st;
    vf::ExactBuf<C> b(s.data(), s.size());
    StringUtils::EscapeHTMLSpecialChars(st, (const C *)b.p, SizeT(b.n));
    return std::basic_string<C>(st.First() ? st.First() : (const C *)U"", st.Length());
}

template <typename C>
static void direct_one(const std::basic_string<C> &s) {
    std::basic_string<C> o = esc_direct(s);
    check_escaped(s, o, "direct");
    if (Config::AutoEscapeHTML) {
        std::basic_string<C> o2 = esc_direct(o);
        if (o2 != o) vf::fail("c03:direct:not-idempotent", "source=%s once=%s twice=%s", vf::show(s.data(), s.size()).c_str(), vf::show(o.data(), o.size()).c_str(), vf::show(o2.data(), o2.size()).c_str());
    }
    bool special = false;
    for (C ch : s) special |= (ch == C('&') || ch == C('<') || ch == C('>') || ch == C('"') || ch == C('\''));
    if (special) vf::count("strings_with_specials");
}

template <typename C>
static void direct_case(uint64_t c, long max_len) {
    // exhaustive: case c in [0, 18^(L-1)*...]: enumerate all strings of length 0..max_len whose index / 18^3 == c
    // i.e. each case covers the 5832 strings sharing a prefix; total cases = sum over lengths.
    // Simpler and complete: case c is the value of the first (len-3) units; we loop lengths 0..max_len.
    static uint64_t pw[8] = {1, 18, 324, 5832, 104976, 1889568, 34012224, 612220032};
    for (long len = 0; len <= max_len; ++len) {
        uint64_t total  = pw[len];
        uint64_t blocks = len <= 3 ? 1 : pw[len - 3];
        if (c >= blocks) continue;
        uint64_t per = total / blocks;
        for (uint64_t i = c * per; i < (c + 1) * per; ++i) {
            std::basic_string<C> s;
            uint64_t             x = i;
            for (long k = 0; k < len; ++k) {
                s += C(kAlphabet[x % 18]);
                x /= 18;
            }
            direct_one(s);
        }
    }
}

template <typename C>
static std::basic_string<C> random_payload(vf::Rng &r) {
    std::basic_string<C> s;
    unsigned             n = r.below(24);
    for (unsigned i = 0; i < n; ++i) {
        unsigned k = r.below(10);
        if (k < 4) s += C(kAlphabet[r.below(18)]);
        else if (k == 4) {
            static const char *e[] = {"&amp;", "&lt;", "&gt;", "&quot;", "&apos;", "&am", "&amp", "&lt", "&quo", "&apos", "&#39;", "&&", "&lt;&"};
            for (const char *p = e[r.below(13)]; *p; ++p) s += C(*p);
        } else if (k == 5 && sizeof(C) > 1 && r.chance(1, 2)) {
            // wide units whose low byte is a special character: not special themselves, must pass through unchanged
            static const unsigned low[] = {0x26, 0x3C, 0x3E, 0x22, 0x27, 0x3B, 0x61, 0x00};
            s += C((sizeof(C) == 4 && r.chance(1, 3) ? 0x10000u : 0u) + 0x100u * (1 + r.below(0x40)) + low[r.below(8)]);
        } else if (k == 5) s += C(sizeof(C) == 1 ? (0x80 + r.below(0x80)) : (sizeof(C) == 2 ? r.below(0x10000) : r.below(0x110000)));
        else s += C(0x20 + r.below(0x5F));
    }
    // force an & within 0..6 units of the end
    if (r.chance(1, 2)) {
        unsigned tail = r.below(7);
        static const char *t[] = {"", ";", "t;", "lt;", "amp;", "quot;", "apos;", "m", "am", "amp", "quo", "apo"};
        s += C('&');
        const char *x = t[r.below(12)];
        for (unsigned i = 0; x[i] && i < tail; ++i) s += C(x[i]);
    }
    return s;
}

// ------------------------------------------------------------------ render paths
template <typename C>
static std::basic_string<C> W(const char *a) {
    std::basic_string<C> o;
    for (; *a; ++a) o += C(*a);
    return o;
}

template <typename C>
static std::basic_string<C> render(const std::basic_string<C> &tpl, const Value<C> &v) {
    StringStream<C> out;
    vf::ExactBuf<C> b(tpl.data(), tpl.size());
    Template::Render((const C *)b.p, SizeT(b.n), v, out);
    std::basic_string<C> direct(out.First() ? out.First() : (const C *)U"", out.Length());
    // the same template through a tag cache, a copy of that cache and a copy-assigned one: a tag keeps its kind
    // ({raw:} stays raw, {var:} stays escaped) however the parsed form travels
    {
        Array<Tags::TagBit> cache;
        StringStream<C>     o1, o2, o3;
        Template::Render((const C *)b.p, SizeT(b.n), v, o1, cache);
        Array<Tags::TagBit> copy{cache};
        Template::Render((const C *)b.p, SizeT(b.n), v, o2, copy);
        Array<Tags::TagBit> assigned;
        assigned = copy;
        Template::Render((const C *)b.p, SizeT(b.n), v, o3, assigned);
        vf::count("cache_copy_renders", 3);
        if (!(o1 == out) || !(o2 == out) || !(o3 == out)) {
            vf::fail("c03:cached-or-copied-tags-render-differently", "template=%s direct=%s cached=%s copy=%s assigned=%s", vf::show(tpl.data(), tpl.size()).c_str(),
                     vf::show(out.First(), out.Length()).c_str(), vf::show(o1.First(), o1.Length()).c_str(), vf::show(o2.First(), o2.Length()).c_str(),
                     vf::show(o3.First(), o3.Length()).c_str());
        }
    }
    return direct;
}

// payload between the sentinels \x01 and \x02
template <typename C>
static bool between(const std::basic_string<C> &out, std::basic_string<C> &seg) {
    size_t a = out.find(C(1)), b = out.rfind(C(2));
    if (a == std::basic_string<C>::npos || b == std::basic_string<C>::npos || b < a) return false;
    seg = out.substr(a + 1, b - a - 1);
    return true;
}

template <typename C>
static void render_paths(const std::basic_string<C> &p) {
    using S = std::basic_string<C>;
    S one(1, C(1)), two(1, C(2));
    S seg;
    // (a) {var:x} and {raw:x} with a string value
    {
        Value<C> v;
        v[W<C>("x").c_str()] = String<C>((const C *)p.data(), SizeT(p.size()));
        S out                = render(one + W<C>("{var:x}") + two, v);
        if (!between(out, seg)) vf::fail("c03:var:sentinels-lost", "payload=%s", vf::show(p.data(), p.size()).c_str());
        else check_escaped(p, seg, "var");
        out = render(one + W<C>("{raw:x}") + two, v);
        vf::count("raw_renders");
        if (!between(out, seg) || seg != p) vf::fail("c03:raw:not-verbatim", "payload=%s output=%s", vf::show(p.data(), p.size()).c_str(), vf::show(out.data(), out.size()).c_str());
        // inline if with {var:x} in the true branch
        out = render(one + W<C>("{if case=\"1\" true=\"{var:x}\" false=\"n\"}") + two, v);
        if (!between(out, seg)) vf::fail("c03:inline-if:sentinels-lost", "payload=%s", vf::show(p.data(), p.size()).c_str());
        else check_escaped(p, seg, "inline-if");
        // loop over an array of strings
        Value<C> arr;
        arr += String<C>((const C *)p.data(), SizeT(p.size()));
        out = render(one + W<C>("<loop value=\"v\">{var:v}</loop>") + two, arr);
        if (!between(out, seg)) vf::fail("c03:loop-item:sentinels-lost", "payload=%s", vf::show(p.data(), p.size()).c_str());
        else check_escaped(p, seg, "loop-item");
    }
    // (a2) the same positions reached through pointer-to-value members (SetPointerToValue / AddPointerToValue)
    {
        Value<C> target{String<C>((const C *)p.data(), SizeT(p.size()))};
        Value<C> v;
        v[W<C>("x").c_str()].SetPointerToValue(&target);
        S out = render(one + W<C>("{var:x}") + two, v);
        if (!between(out, seg)) vf::fail("c03:pointer-var:sentinels-lost", "payload=%s", vf::show(p.data(), p.size()).c_str());
        else check_escaped(p, seg, "pointer-var");
        out = render(one + W<C>("{raw:x}") + two, v);
        if (!between(out, seg) || seg != p) vf::fail("c03:pointer-raw:not-verbatim", "payload=%s output=%s", vf::show(p.data(), p.size()).c_str(), vf::show(out.data(), out.size()).c_str());
        out = render(one + W<C>("{if case=\"1\" true=\"{var:x}\" false=\"n\"}") + two, v);
        if (!between(out, seg)) vf::fail("c03:pointer-inline-if:sentinels-lost", "payload=%s", vf::show(p.data(), p.size()).c_str());
        else check_escaped(p, seg, "pointer-inline-if");
        Value<C> arr;
        arr.AddPointerToValue(&target);
        out = render(one + W<C>("<loop value=\"v\">{var:v}</loop>") + two, arr);
        if (!between(out, seg)) vf::fail("c03:pointer-loop-item:sentinels-lost", "payload=%s", vf::show(p.data(), p.size()).c_str());
        else check_escaped(p, seg, "pointer-loop-item");
        Value<C> sv;
        sv[W<C>("ph2").c_str()] = String<C>(W<C>("{0}").c_str());
        sv[W<C>("x").c_str()].SetPointerToValue(&target);
        out = render(one + W<C>("{svar:ph2, {var:x}}") + two, sv);
        if (!between(out, seg)) vf::fail("c03:pointer-svar-subtag:sentinels-lost", "payload=%s", vf::show(p.data(), p.size()).c_str());
        else check_escaped(p, seg, "pointer-svar-subtag");
        vf::count("pointer_renders", 5);
    }
    // (b) loop key of an object loop: the member is unprintable (an empty array), so {var:v} prints the key
    {
        Value<C> v;
        v[String<C>((const C *)p.data(), SizeT(p.size()))] = typename Value<C>::ArrayT{};
        S out = render(one + W<C>("<loop value=\"v\">{var:v}</loop>") + two, v);
        if (!between(out, seg)) vf::fail("c03:loop-key:sentinels-lost", "payload=%s", vf::show(p.data(), p.size()).c_str());
        else if (!p.empty()) check_escaped(p, seg, "loop-key"); // an empty key falls back to echoing the tag
    }
    // (c) super variable phrase: the phrase text is escaped, sub-tags by their own kind
    {
        bool has_brace = p.find(C('{')) != S::npos; // "{0}" inside the payload would be a substitution
        if (!has_brace) {
            Value<C> v;
            v[W<C>("ph").c_str()] = String<C>((const C *)p.data(), SizeT(p.size()));
            v[W<C>("x").c_str()]  = String<C>((const C *)p.data(), SizeT(p.size()));
            S out                 = render(one + W<C>("{svar:ph, {var:x}}") + two, v);
            if (!between(out, seg)) vf::fail("c03:svar-phrase:sentinels-lost", "payload=%s", vf::show(p.data(), p.size()).c_str());
            else check_escaped(p, seg, "svar-phrase");
            // phrase "{0}" with a {var:} sub-tag and a {raw:} sub-tag
            v[W<C>("ph2").c_str()] = W<C>("{0}").c_str();
            out                    = render(one + W<C>("{svar:ph2, {var:x}}") + two, v);
            if (!between(out, seg)) vf::fail("c03:svar-var-subtag:sentinels-lost", "payload=%s", vf::show(p.data(), p.size()).c_str());
            else check_escaped(p, seg, "svar-var-subtag");
            out = render(one + W<C>("{svar:ph2, {raw:x}}") + two, v);
            if (!between(out, seg) || seg != p) vf::fail("c03:svar-raw-subtag:not-verbatim", "payload=%s output=%s", vf::show(p.data(), p.size()).c_str(), vf::show(out.data(), out.size()).c_str());
        }
    }
    // (c2) brace groups in the phrase that are not substitutions ({<} {&} {x} {7} with one sub-tag, lone braces): they are
    //      phrase text and are escaped like the rest of it
    if (p.find(C('{')) == S::npos && p.find(C('}')) == S::npos && p.size() < 120) {
        static const char *groups[] = {"{<}", "{>}", "{&}", "{\"}", "{'}", "{x}", "{7}", "{", "}", "{}", "{<", "&}", "{1}{<}", "{&}{&}"};
        uint64_t           h        = vf::fnv(p.data(), p.size() * sizeof(C));
        S                  q;
        size_t             a = p.empty() ? 0 : size_t(h % (p.size() + 1)), b = p.empty() ? 0 : size_t((h >> 16) % (p.size() + 1));
        if (a > b) std::swap(a, b);
        q = p.substr(0, a) + W<C>(groups[(h >> 32) % 14]) + p.substr(a, b - a) + W<C>(groups[(h >> 40) % 14]) + p.substr(b);
        // (a lone "{" and a lone "}" around a payload "0" would form the real hole {0}: such phrases are left out)
        if (q.find(W<C>("{0}")) == S::npos) {
            Value<C> v;
            v[W<C>("ph").c_str()] = String<C>((const C *)q.data(), SizeT(q.size()));
            v[W<C>("x").c_str()]  = W<C>("Z").c_str();
            S out                 = render(one + W<C>("{svar:ph, {var:x}}") + two, v);
            if (!between(out, seg)) vf::fail("c03:svar-phrase-braces:sentinels-lost", "phrase=%s", vf::show(q.data(), q.size()).c_str());
            else check_escaped(q, seg, "svar-phrase-braces");
            vf::count("svar_brace_phrases");
        }
    }
    // (d) echoed source of an unresolved {var:<payload>}: only payloads that cannot end the tag or index into a value
    {
        bool ok = !p.empty() && p.size() < 200;
        for (C ch : p) ok = ok && ch != C('}') && ch != C('{') && ch != C('[') && ch != C(']') && ch != C(1) && ch != C(2) && ch != C(0);
        // ... nor contain the opening of another tag: "{var:x<if y}" is not a variable tag in the engine's grammar (the next
        // pattern after "{var:" must be the closing brace), it is literal template text and literal text is never escaped
        for (const char *pat : {"<loop", "<if", "<else", "</loop", "</if"}) ok = ok && p.find(W<C>(pat)) == S::npos;
        if (ok) {
            Value<C> v;
            v[W<C>("other").c_str()] = 1;
            S src                    = W<C>("{var:") + p + W<C>("}");
            S out                    = render(one + src + two, v);
            if (!between(out, seg)) vf::fail("c03:echo:sentinels-lost", "payload=%s", vf::show(p.data(), p.size()).c_str());
            else check_escaped(src, seg, "echo");
            // the same fallback for a loop variable whose index does not resolve, over an array and over an object
            S        lsrc = W<C>("{var:v[") + p + W<C>("]}");
            Value<C> arr;
            arr += 1;
            out = render(W<C>("<loop value=\"v\">") + one + lsrc + two + W<C>("</loop>"), arr);
            if (!between(out, seg)) vf::fail("c03:loop-echo:sentinels-lost", "payload=%s", vf::show(p.data(), p.size()).c_str());
            else check_escaped(lsrc, seg, "loop-echo");
            Value<C> obj;
            obj[W<C>("").c_str()] = 1;
            obj[W<C>("k").c_str()] = typename Value<C>::ArrayT{};
            out = render(W<C>("<loop value=\"v\">") + one + lsrc + two + W<C>("</loop>"), obj);
            {
                // two items: the segment between the first \x01 and the last \x02 holds both echoes and the text between
                size_t a = out.find(C(1)), b = out.find(C(2));
                if (a == S::npos || b == S::npos || b < a) vf::fail("c03:loop-echo-object:sentinels-lost", "payload=%s", vf::show(p.data(), p.size()).c_str());
                else check_escaped(lsrc, out.substr(a + 1, b - a - 1), "loop-echo-object");
            }
        }
    }
}

int main(int argc, char **argv) {
    vf::Args    a    = vf::parse_args(argc, argv);
    std::string mode = a.opts("mode", "direct");
    long        maxl = a.optl("maxlen", 5);
    (void)kAlpha;
    for (uint64_t c = a.from; c < a.to; ++c) {
        vf::begin_case(c);
        vf::Rng r(vf::g_seed, c);
        if (mode == "direct") {
            switch (c % 4) {
                case 0: direct_case<char>(c / 4, maxl); break;
                case 1: direct_case<char16_t>(c / 4, maxl); break;
                case 2: direct_case<char32_t>(c / 4, maxl); break;
                default: direct_case<wchar_t>(c / 4, maxl);
            }
            for (int i = 0; i < 200; ++i) {
                direct_one(random_payload<char>(r));
                direct_one(random_payload<char16_t>(r));
                direct_one(random_payload<char32_t>(r));
            }
            vf::distinct(c);
            if (vf::want_sample() && c % 97 == 5) vf::sample("exhaustive block %" PRIu64 " of strings over the alphabet & < > \" ' ; a m p l t g q u o s # x (lengths 0..%ld) + 600 random strings with an & near the end", c, maxl);
        } else {
            for (int i = 0; i < 12; ++i) {
                std::basic_string<char> p = random_payload<char>(r);
                // small exhaustive payloads first
                if (i < 6) {
                    p.clear();
                    uint64_t x = c * 6 + uint64_t(i);
                    unsigned len = unsigned(x % 5);
                    x /= 5;
                    for (unsigned k = 0; k < len; ++k) {
                        p += kAlphabet[x % 18];
                        x /= 18;
                    }
                }
                render_paths(p);
                std::basic_string<char16_t> p16(p.begin(), p.end());
                std::basic_string<char32_t> p32(p.begin(), p.end());
                std::basic_string<wchar_t>  pw(p.begin(), p.end());
                if (i >= 6 && (i & 1)) {
                    // wide renders: add units whose low byte is a special character (U+0126, U+013C, ...)
                    static const unsigned low[] = {0x26, 0x3C, 0x3E, 0x22, 0x27, 0x3B};
                    unsigned              u     = 0x100u * (1 + r.below(0x40)) + low[r.below(6)];
                    size_t                at    = p.empty() ? 0 : r.below(uint32_t(p.size() + 1));
                    p16.insert(p16.begin() + long(at), char16_t(u));
                    p32.insert(p32.begin() + long(at), char32_t(u + (r.chance(1, 2) ? 0x10000u : 0u)));
                    pw.insert(pw.begin() + long(at), wchar_t(u));
                }
                switch ((c + uint64_t(i)) % 3) {
                    case 0: render_paths(p16); break;
                    case 1: render_paths(p32); break;
                    default: render_paths(pw);
                }
                vf::distinct(vf::fnv(p.data(), p.size()));
                if (i == 7 && vf::want_sample()) vf::sample("payload %s through {var:} {raw:} inline-if loop-item loop-key svar phrase/sub-tags and echoed unresolved tag", vf::show(p.data(), p.size()).c_str());
            }
        }
        vf::end_case();
    }
    return vf::finish(a);
}
