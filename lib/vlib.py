"""Shared driver library for the /verif checks (runtime monitoring of Qentem-Engine).

build cache -> worker pool -> death triage (re-run the single case, parse the sanitizer report into a
signature) -> known-findings matching -> evidence writer.  See DESIGN.md section 1.
"""
import array
import concurrent.futures as cf
import hashlib
import json
import os
import re
import resource
import shutil
import subprocess
import sys
import time

VERIF = os.path.dirname(os.path.dirname(os.path.abspath(__file__)))
REPO = os.environ.get("QENTEM_REPO", "/repo")
BUILD = os.environ.get("VERIF_BUILD", os.path.join(VERIF, "build"))
# tools/coverage_gaps.py sets this (with its own VERIF_BUILD) to learn which library lines the workloads never reach
COVERAGE = os.environ.get("VERIF_COVERAGE", "") == "1"
NPROC = int(os.environ.get("VERIF_JOBS", "16"))

SAN_UB = "bounds,null,integer-divide-by-zero,bool,enum,vla-bound,return,unreachable,builtin"
MONITOR_FLAGS = {
    "asan": ["-O1", "-g", "-fno-omit-frame-pointer", "-fsanitize=address," + SAN_UB,
             "-fno-sanitize-recover=all"],
    "plain": ["-O2", "-g"],
    "plain0": ["-O0", "-g"],
    "tsan": ["-O1", "-g", "-fno-omit-frame-pointer", "-fsanitize=thread", "-DVF_THREADS=1", "-pthread"],
    # clang libFuzzer + ASan + the same UBSan subset (thorough tier only)
    "fuzz": ["-O1", "-g", "-fno-omit-frame-pointer", "-fsanitize=fuzzer,address," + SAN_UB, "-fno-sanitize-recover=all"],
}
SIMD_FLAGS = {
    "none": [],
    "sse2": ["-DQENTEM_SSE2=1", "-msse2"],
    "avx2": ["-DQENTEM_AVX2=1", "-mavx2"],
}

ASAN_OPTIONS = ("abort_on_error=0:exitcode=77:detect_leaks=1:allocator_may_return_null=0:"
                "max_allocation_size_mb=2048:handle_sigfpe=1:detect_stack_use_after_return=1:"
                "handle_abort=0:print_summary=1:malloc_context_size=12")
UBSAN_OPTIONS = "print_stacktrace=1:halt_on_error=1"
TSAN_OPTIONS = "halt_on_error=1:exitcode=66:history_size=7:second_deadlock_stack=1"


class HarnessError(Exception):
    """The machinery itself failed (build error, protocol error): verdict inconclusive, exit 2."""


def log(*a):
    print(*a, file=sys.stderr, flush=True)


# ---------------------------------------------------------------------------------------------------
# build cache
# ---------------------------------------------------------------------------------------------------
_tree_hash_cache = {}


def tree_hash():
    inc = os.path.join(REPO, "Include")
    if inc in _tree_hash_cache:
        return _tree_hash_cache[inc]
    h = hashlib.sha256()
    for name in sorted(os.listdir(inc)):
        p = os.path.join(inc, name)
        if os.path.isfile(p):
            h.update(name.encode())
            with open(p, "rb") as f:
                h.update(f.read())
    _tree_hash_cache[inc] = h.hexdigest()
    return _tree_hash_cache[inc]


class Config:
    """One build configuration of one harness."""

    def __init__(self, harness, monitor="asan", simd="none", esc=1, hooks=1, unit=None, defines=(),
                 compiler="g++", extra=()):
        self.harness = harness
        self.monitor = monitor
        self.simd = simd
        self.esc = esc
        self.hooks = hooks
        self.unit = unit
        self.defines = tuple(defines)
        self.compiler = compiler
        self.extra = tuple(extra)

    def name(self):
        parts = [self.harness.replace("/", "-"), self.monitor, self.simd, "esc%d" % self.esc, "hooks%d" % self.hooks]
        if self.unit:
            parts.append(self.unit)
        parts += [d.replace("=", "-") for d in self.defines]
        return ".".join(parts)

    def flags(self):
        f = ["-std=c++17", "-Wall", "-Wno-unused-function", "-Wno-unused-variable",
             "-I", os.path.join(REPO, "Include"), "-I", os.path.join(VERIF, "harness")]
        f += MONITOR_FLAGS[self.monitor]
        f += SIMD_FLAGS[self.simd]
        f += ["-DQENTEM_AUTO_ESCAPE_HTML=%d" % self.esc]
        if self.hooks:
            f += ["-DQENTEM_VERIF_HOOKS=1"]
        if self.unit:
            f += ["-DVF_CHAR=%s" % self.unit]
        f += ["-D" + d for d in self.defines]
        f += list(self.extra)
        if COVERAGE and self.compiler == "g++":
            # -O0: with optimisation identical "return 0;" / "break;" blocks are merged and their line counts with them
            f = [x for x in f if not x.startswith("-O")] + ["-O0", "--coverage", "-fprofile-update=atomic"]
        return f

    def describe(self):
        return {"harness": self.harness, "monitor": self.monitor, "simd": self.simd, "esc": self.esc,
                "hooks": self.hooks, "unit": self.unit, "defines": list(self.defines)}


def build_one(cfg):
    src = os.path.join(VERIF, "harness", cfg.harness + ".cpp")
    h = hashlib.sha256()
    h.update(tree_hash().encode())
    for p in [src] + sorted(
            os.path.join(VERIF, "harness", n) for n in os.listdir(os.path.join(VERIF, "harness"))
            if n.endswith(".hpp")):
        with open(p, "rb") as f:
            h.update(f.read())
    h.update(" ".join([cfg.compiler] + cfg.flags()).encode())
    key = h.hexdigest()[:20]
    bindir = os.path.join(BUILD, "bin")
    os.makedirs(bindir, exist_ok=True)
    out = os.path.join(bindir, cfg.name() + "." + key)
    if os.path.exists(out):
        return out
    tmp = out + ".tmp%d" % os.getpid()
    if COVERAGE:
        tmp = out  # gcov note/data files are named after the output path: keep it stable
    cmd = [cfg.compiler] + cfg.flags() + [src, "-o", tmp, "-ldl"]
    t0 = time.time()
    r = subprocess.run(cmd, capture_output=True, text=True)
    if r.returncode != 0:
        raise HarnessError("build failed: %s\n%s" % (" ".join(cmd), r.stderr[-6000:]))
    if tmp != out:
        os.rename(tmp, out)
    # drop stale binaries of the same configuration
    for n in os.listdir(bindir):
        if n.startswith(cfg.name() + ".") and n != os.path.basename(out) and ".tmp" not in n:
            try:
                # another run (e.g. the mutant self-test on a scratch tree) may be using it: only drop old ones
                # (a day: a thorough run of this tree may still be executing a binary built hours ago)
                if time.time() - os.path.getmtime(os.path.join(bindir, n)) > 24 * 3600:
                    os.unlink(os.path.join(bindir, n))
            except OSError:
                pass
    log("[build] %s  %.1fs" % (cfg.name(), time.time() - t0))
    return out


def build_all(cfgs):
    """Compile all configurations in parallel; returns {cfg.name(): path}."""
    res = {}
    with cf.ThreadPoolExecutor(max_workers=NPROC) as ex:
        futs = {ex.submit(build_one, c): c for c in cfgs}
        for f in cf.as_completed(futs):
            res[futs[f].name()] = f.result()
    return res


# ---------------------------------------------------------------------------------------------------
# running
# ---------------------------------------------------------------------------------------------------
def _preexec(stack_mb):
    def fn():
        if stack_mb:
            try:
                resource.setrlimit(resource.RLIMIT_STACK, (stack_mb << 20, stack_mb << 20))
            except (ValueError, OSError):
                pass
        resource.setrlimit(resource.RLIMIT_CORE, (0, 0))
    return fn


def run_env():
    e = dict(os.environ)
    e["ASAN_OPTIONS"] = ASAN_OPTIONS
    e["UBSAN_OPTIONS"] = UBSAN_OPTIONS
    e["TSAN_OPTIONS"] = TSAN_OPTIONS
    e["LSAN_OPTIONS"] = "exitcode=76"
    return e


def run_proc(cmd, wall=None, stack_mb=1024, stdin=None):
    """Run one harness process; returns (rc, stdout, stderr, timed_out)."""
    if wall is None:
        wall = int(os.environ.get("VERIF_CHUNK_WALL", "3600"))
    try:
        r = subprocess.run(cmd, capture_output=True, env=run_env(), timeout=wall,
                           preexec_fn=_preexec(stack_mb), input=stdin)
        return r.returncode, r.stdout.decode("utf-8", "replace"), r.stderr.decode("utf-8", "replace"), False
    except subprocess.TimeoutExpired as ex:
        out = (ex.stdout or b"").decode("utf-8", "replace")
        err = (ex.stderr or b"").decode("utf-8", "replace")
        return -9, out, err, True


_DIED = re.compile(r"^(DIED|TIMEOUT|MONITOR-FATAL) case=(-?\d+)", re.M)
_BEGIN = re.compile(r"^(BEGIN) case=(-?\d+)", re.M)
_FRAME = re.compile(r"^\s*#(\d+)\s+(?:0x[0-9a-f]+\s+)?(?:in\s+)?(.*?)(?:\s+(/[^\s:]+|\S+\.[ch]pp|\S+\.h)(?::(\d+))?(?::\d+)?)?\s*$")

COMPONENT_PREFIXES = ("TemplateCore", "Template::", "JSONParser", "JSON::", "JSONUtils", "Digit::", "Digit<",
                      "Value::", "Value<", "HashTable", "HArray", "HList", "BigInt", "QExpression", "Unicode",
                      "DoubleSize", "Tags::", "QNumber")


def _strip_templates(s):
    # remove <...> groups and (...) argument lists, [with ...] suffixes
    s = re.sub(r"\[with .*$", "", s)
    out = []
    depth = 0
    for ch in s:
        if ch == "<":
            depth += 1
        elif ch == ">":
            depth = max(0, depth - 1)
        elif depth == 0:
            out.append(ch)
    s = "".join(out)
    s = re.sub(r"\(.*$", "", s)
    s = s.replace("Qentem::", "")
    s = re.sub(r"^(static|inline|const|void|bool|unsigned|int|long|char|auto)\s+", "", s.strip())
    parts = s.split()
    return parts[-1] if parts else s


def parse_report(stderr_text):
    """Turn a sanitizer / signal report into (kind, frames) where frames are simplified function names
    of the frames that lie in the code under test, innermost first."""
    kind = None
    m = re.search(r"ERROR: AddressSanitizer: ([A-Za-z0-9_-]+)", stderr_text)
    if m:
        kind = "asan:" + m.group(1)
        if m.group(1) == "SEGV":
            if "address points to the zero page" in stderr_text or re.search(r"unknown address 0x0000000000[0-9a-f]{2}\b", stderr_text):
                kind += ":null"
        m2 = re.search(r"^(READ|WRITE) of size", stderr_text, re.M)
        if m2:
            kind += ":" + m2.group(1)
        elif "caused by a WRITE" in stderr_text:
            kind += ":WRITE"
        elif "caused by a READ" in stderr_text:
            kind += ":READ"
    if kind is None:
        m = re.search(r"runtime error: (.*)", stderr_text)
        if m:
            msg = m.group(1)
            msg = re.sub(r"-?\d+", "N", msg)
            msg = re.sub(r"'[^']*'", "T", msg)
            kind = "ubsan:" + msg.strip()[:60]
    if kind is None:
        m = re.search(r"^==\d+== (Conditional jump or move depends on uninitialised value|Use of uninitialised value|"
                      r"Invalid (?:read|write|free)|Syscall param \S+ (?:points to|contains) uninitialised|"
                      r"Mismatched free|Source and destination overlap)", stderr_text, re.M)
        if m:
            kind = "memcheck:" + m.group(1).replace(" ", "-")
            vframes = []
            for line in stderr_text[m.end():].splitlines():
                fm = re.match(r"^==\d+==\s+(?:at|by) 0x[0-9A-F]+: (.*?) \((?:in )?([^:)]+)(?::(\d+))?\)", line)
                if fm:
                    vframes.append((fm.group(1), fm.group(2)))
                elif vframes:
                    break
            sig = []
            for func, path in vframes:
                if not (path.endswith(".hpp") and "harness" not in path and path not in ("common.hpp", "vmodel.hpp", "tmplgen.hpp", "jsongen.hpp")):
                    if sig:
                        break
                    continue
                sig.append(_strip_templates(func))
                if sig[-1].startswith(COMPONENT_PREFIXES) or len(sig) >= 6:
                    break
            return kind + "@" + ("<".join(sig) if sig else "-"), []
    if kind is None:
        m = re.search(r"ERROR: LeakSanitizer", stderr_text)
        if m:
            kind = "lsan:leak"
    if kind is None:
        m = re.search(r"WARNING: ThreadSanitizer: ([a-z A-Z-]+)", stderr_text)
        if m:
            kind = "tsan:" + m.group(1).strip().replace(" ", "-")
    if kind is None:
        m = re.search(r"^TIMEOUT case", stderr_text, re.M)
        if m:
            kind = "timeout"
    if kind is None:
        m = re.search(r"^DIED case=-?\d+ sig=(\d+)", stderr_text, re.M)
        if m:
            kind = "signal:" + m.group(1)
    if kind is None:
        kind = "death:unknown"
    frames = []
    started = False
    for line in stderr_text.splitlines():
        fm = re.match(r"^\s*#(\d+)\s+0x[0-9a-f]+\s+in\s+(.*?)\s+(\S+?):(\d+)", line)
        if not fm:
            fm2 = re.match(r"^\s*#(\d+)\s+0x[0-9a-f]+\s+in\s+(.*?)\s+\(", line)
            if fm2 and started:
                if int(fm2.group(1)) == 0:
                    break
            if started and line.strip() == "":
                break
            continue
        idx, func, path = int(fm.group(1)), fm.group(2), fm.group(3)
        if idx == 0 and started:
            break  # second stack (allocation site) begins
        started = True
        frames.append((func, path))
    return kind, frames


def signature(stderr_text):
    kind, frames = parse_report(stderr_text)
    if kind.startswith("memcheck:"):
        return kind
    inc = os.path.join(REPO, "Include")
    sig = []
    for func, path in frames:
        rp = os.path.realpath(path) if path.startswith("/") else path
        if not (rp.startswith(os.path.realpath(inc)) or "/Include/" in path):
            if sig:
                break
            continue
        name = _strip_templates(func)
        sig.append(name)
        if name.startswith(COMPONENT_PREFIXES):
            break
        if len(sig) >= 6:
            break
    return kind + "@" + "<".join(sig) if sig else kind + "@-"


_timeouts_seen = [0]  # per driver process: watchdog expiries triaged so far


class Death:
    def __init__(self, case, sig, report, cfgname, extra=()):
        self.case = case
        self.sig = sig
        self.report = report
        self.cfgname = cfgname
        self.extra = list(extra)


class RunResult:
    def __init__(self):
        self.fails = []        # (cfgname, case, key, detail)
        self.fail_keys = {}    # key -> count (all, including unprinted)
        self.deaths = []       # Death
        self.counters = {}
        self.samples = []
        self.distinct = set()
        self.unexplored = 0
        self.wall_skipped = 0   # cases not run because the wall clock of a chunk expired twice (machine load)
        self.inconclusive = []  # text
        self.cases = 0
        self.per_cfg_cases = {}

    def merge_counters(self, c):
        for k, v in c.items():
            if k.endswith("_max") or k.startswith("max_") or k == "ledger_peak_live":
                self.counters[k] = max(self.counters.get(k, 0), v)
            else:
                self.counters[k] = self.counters.get(k, 0) + v


def _parse_stdout(out, cfgname, res, want_samples=True, extra=()):
    done = None
    for line in out.splitlines():
        if line.startswith("FAIL "):
            m = re.match(r"FAIL case=(\d+) key=(\S+) detail=(.*)", line)
            if m:
                res.fails.append((cfgname, int(m.group(1)), m.group(2), m.group(3), list(extra)))
        elif line.startswith("SAMPLE "):
            if want_samples and len(res.samples) < 12:
                res.samples.append(cfgname.split(".")[0] + " " + line[7:][:1200])
        elif line.startswith("DONE "):
            try:
                done = json.loads(line[5:])
            except ValueError:
                done = None
    return done


MEMCHECK = ["valgrind", "-q", "--error-exitcode=98", "--exit-on-first-error=yes", "--undef-value-errors=yes",
            "--leak-check=no", "--num-callers=16"]


def run_chunk(binary, cfgname, seed, lo, hi, extra, workdir, tag, cpu, triage_budget, stack_mb,
              timeout_is_violation, wrapper=()):
    """Run cases [lo,hi) of one binary in one process, restarting after deaths. Returns a RunResult."""
    res = RunResult()
    cur = lo
    restarts = 0
    wall_retry_done = False
    while cur < hi:
        hashfile = os.path.join(workdir, "hash.%s.%d.%d.bin" % (tag, lo, restarts))
        cmd = list(wrapper) + [binary, "--seed", str(seed), "--from", str(cur), "--to", str(hi), "--hashes", hashfile,
                               "--cpu", str(cpu)] + extra + (["--announce"] if wrapper else [])
        rc, out, err, wall_to = run_proc(cmd, stack_mb=stack_mb)
        done = _parse_stdout(out, cfgname, res, extra=extra)
        if os.path.exists(hashfile):
            a = array.array("Q")
            with open(hashfile, "rb") as f:
                data = f.read()
            a.frombytes(data[: len(data) // 8 * 8])
            res.distinct.update(a)
            os.unlink(hashfile)
        if done is not None:
            res.merge_counters(done.get("counters", {}))
            for k, v in done.get("fail_keys", {}).items():
                res.fail_keys[k] = res.fail_keys.get(k, 0) + v
        if rc == 0 and done is not None:
            break
        if rc in (76, 77) and done is not None and "LeakSanitizer" in err:
            # LeakSanitizer at exit, after all cases ran: not attributable to a case by itself
            res.deaths.append(Death(-1, signature(err), err[-8000:], cfgname, extra))
            break
        # died somewhere
        m = None
        for m in _DIED.finditer(err):
            pass
        if m is None:
            # tools without an on-report hook (TSan): the harness announced each case before running it
            for m in _BEGIN.finditer(err):
                pass
        if wall_to:
            # The wall clock is a guard against a stalled machine, not a verdict: non-termination is decided by the CPU-time
            # watchdog inside the harness. Resume once after the last case that was seen to start; if the clock expires
            # again the rest of the chunk is reported as not explored (evidence: cases_not_explored, wall_clock_expiries).
            nxt = (int(m.group(2)) if (m is not None and int(m.group(2)) >= cur) else cur)
            res.counters["wall_clock_expiries"] = res.counters.get("wall_clock_expiries", 0) + 1
            if not wall_retry_done and nxt < hi:
                wall_retry_done = True
                cur = nxt
                restarts += 1
                continue
            res.unexplored += hi - cur
            res.wall_skipped += hi - cur
            break
        if m is None or int(m.group(2)) < 0:
            # death outside any case: harness problem
            res.inconclusive.append("%s: process died outside a case rc=%s stderr=%s" % (cfgname, rc, err[-1500:]))
            res.unexplored += hi - cur
            break
        case = int(m.group(2))
        what = m.group(1)
        # cases before 'case' in this process finished but their counters are lost; count them
        res.counters["cases"] = res.counters.get("cases", 0) + max(0, case - cur)
        if triage_budget[0] <= 0 or (what == "TIMEOUT" and _timeouts_seen[0] >= 4):
            res.unexplored += hi - case
            if triage_budget[0] <= 0:
                res.inconclusive.append("triage budget exhausted")
            break
        triage_budget[0] -= 1
        if what == "TIMEOUT":
            _timeouts_seen[0] += 1
        # re-run that case alone for a clean report
        cmd1 = list(wrapper) + [binary, "--seed", str(seed), "--only", str(case), "--cpu", str(cpu)] + extra
        rc1, out1, err1, wto1 = run_proc(cmd1, wall=max(120, cpu * 6), stack_mb=stack_mb)
        r1 = RunResult()
        _parse_stdout(out1, cfgname, r1, want_samples=False, extra=extra)
        if rc1 == 0 and not r1.fails:
            # not reproducible alone: record as such (flaky deaths are never silently dropped)
            sig = ("" if wrapper else "nonrepro:") + signature(err)
            res.deaths.append(Death(case, sig, err[-8000:], cfgname, extra))
        elif what == "MONITOR-FATAL" or (r1.fails and rc1 == 79):
            for f in r1.fails:
                res.fails.append(f)
                res.fail_keys[f[2]] = res.fail_keys.get(f[2], 0) + 1
        else:
            sig = signature(err1)
            if sig.startswith("timeout") and not timeout_is_violation:
                res.inconclusive.append("%s: CPU watchdog on case %d" % (cfgname, case))
            else:
                res.deaths.append(Death(case, sig, err1[-8000:], cfgname, extra))
        cur = case + 1
        restarts += 1
    res.cases = res.counters.get("cases", 0)
    return res


def run_cases(binaries, plan, seed, workdir, cpu=20, triage_cap=300, stack_mb=1024,
              timeout_is_violation=True):
    """plan: list of (cfgname, lo, hi, extra_args). Runs chunks on NPROC processes."""
    os.makedirs(workdir, exist_ok=True)
    total = RunResult()
    budget = [triage_cap]
    jobs = []
    for entry in plan:
        (cfgname, lo, hi, extra) = entry[:4]
        wrapper = entry[4] if len(entry) > 4 else ()
        n = hi - lo
        if n <= 0:
            continue
        nchunks = max(1, min(NPROC * 2, n // 50 if n >= 100 else 1))
        step = (n + nchunks - 1) // nchunks
        c = lo
        i = 0
        while c < hi:
            jobs.append((cfgname, c, min(hi, c + step), extra, "%s.%d" % (hashlib.md5(cfgname.encode()).hexdigest()[:8], i), wrapper))
            c += step
            i += 1
    with cf.ThreadPoolExecutor(max_workers=NPROC) as ex:
        futs = [ex.submit(run_chunk, binaries[j[0]], j[0], seed, j[1], j[2], j[3], workdir, j[4], cpu * (30 if j[5] else 1),
                          budget, stack_mb, timeout_is_violation, j[5]) for j in jobs]
        for f, j in zip(futs, jobs):
            r = f.result()
            total.fails += r.fails
            for k, v in r.fail_keys.items():
                total.fail_keys[k] = total.fail_keys.get(k, 0) + v
            total.deaths += r.deaths
            total.merge_counters(r.counters)
            for s in r.samples:
                if len(total.samples) < 12:
                    total.samples.append(s)
            total.distinct |= r.distinct
            total.unexplored += r.unexplored
            total.wall_skipped += r.wall_skipped
            total.inconclusive += r.inconclusive
            total.per_cfg_cases[j[0]] = total.per_cfg_cases.get(j[0], 0) + r.counters.get("cases", 0)
    total.cases = total.counters.get("cases", 0)
    return total


# ---------------------------------------------------------------------------------------------------
# libFuzzer stage (thorough tier)
# ---------------------------------------------------------------------------------------------------
def run_fuzzer(binary, seed, runs_per_job, jobs, max_len, seeds, workdir, tag, dictionary=None, wall=3600):
    """Runs `jobs` independent libFuzzer processes (own corpus dir each, seeds differ). A crash ends that process; its
    report is parsed like any sanitizer report. Returns (stats, crashes[(signature, artifact_path, report_tail)])."""
    os.makedirs(workdir, exist_ok=True)
    procs = []
    for j in range(jobs):
        corp = os.path.join(workdir, "corpus.%s.%d" % (tag, j))
        os.makedirs(corp, exist_ok=True)
        for i, data in enumerate(seeds):
            with open(os.path.join(corp, "seed%04d" % i), "wb") as f:
                f.write(data)
        art = os.path.join(workdir, "artifact.%s.%d." % (tag, j))
        cmd = [binary, "-runs=%d" % runs_per_job, "-seed=%d" % (seed * 1000 + j + 1), "-max_len=%d" % max_len,
               "-artifact_prefix=" + art, "-print_final_stats=1", "-timeout=25", "-rss_limit_mb=3000", corp]
        if dictionary:
            cmd.insert(-1, "-dict=" + dictionary)
        e = run_env()
        e["ASAN_OPTIONS"] = "abort_on_error=0:detect_leaks=0:handle_sigfpe=1:allocator_may_return_null=1:symbolize=1"
        procs.append((j, art, subprocess.Popen(cmd, stdout=subprocess.DEVNULL, stderr=subprocess.PIPE, env=e,
                                               preexec_fn=_preexec(1024))))
    stats = {"executions": 0, "new_units": 0, "jobs": jobs, "crashed_jobs": 0}
    crashes = []
    for j, art, pr in procs:
        try:
            _, err = pr.communicate(timeout=wall)
        except subprocess.TimeoutExpired:
            pr.kill()
            _, err = pr.communicate()
        err = err.decode("utf-8", "replace")
        m = re.search(r"stat::number_of_executed_units:\s+(\d+)", err)
        if m:
            stats["executions"] += int(m.group(1))
        else:
            m2 = None
            for m2 in re.finditer(r"^#(\d+)\s", err, re.M):
                pass
            if m2:
                stats["executions"] += int(m2.group(1))
        m = re.search(r"stat::new_units_added:\s+(\d+)", err)
        if m:
            stats["new_units"] += int(m.group(1))
        if pr.returncode != 0:
            stats["crashed_jobs"] += 1
            files = [f for f in os.listdir(workdir) if f.startswith(os.path.basename(art))]
            path = os.path.join(workdir, files[0]) if files else ""
            kind = "libfuzzer-timeout@-" if "ERROR: libFuzzer: timeout" in err else signature(err)
            crashes.append((kind, path, err[-6000:]))
    return stats, crashes


def complete_lines(path):
    """Lines of a worker's record file that were written completely. A worker that dies leaves its last record torn (and
    without the newline); the death is reported through absorb(), the torn record must not be read as an output."""
    with open(path, errors="replace") as f:
        for line in f:
            if line.endswith("\n"):
                yield line


def fuzz_stage(v, prop, target, seed, runs_per_job, jobs, max_len, seeds, workdir, dictionary=None, extra=()):
    """Build harness/fuzz/<target>.cpp with clang libFuzzer+ASan+UBSan, run it, route every crash through the verdict."""
    import shutil
    fz = Config("fuzz/" + target, "fuzz", "sse2", 1, 1, compiler="clang++", extra=("-fno-sanitize=object-size",) + tuple(extra))
    fbin = build_one(fz)
    stats, crashes = run_fuzzer(fbin, seed, runs_per_job, jobs, max_len, seeds, workdir, target,
                                dictionary=os.path.join(VERIF, "harness", "fuzz", dictionary) if dictionary else None)
    for (sig, art, rep) in crashes:
        keep = ""
        if art:
            os.makedirs(os.path.join(BUILD, "replays", prop), exist_ok=True)
            keep = os.path.join(BUILD, "replays", prop, "fuzz-" + os.path.basename(art))
            shutil.copy(art, keep)
        v.failure("fuzz:" + sig, {"property": prop, "seed": seed, "key": "fuzz:" + sig, "artifact": keep, "report": rep[-3000:],
                                  "build": fz.describe(), "how_to_replay": "%s %s" % (fbin, keep)},
                  "libFuzzer: %s artifact=%s" % (sig, keep))
    stats["build"] = fz.describe()
    return stats


# ---------------------------------------------------------------------------------------------------
# known findings
# ---------------------------------------------------------------------------------------------------
def load_known():
    p = os.path.join(VERIF, "known_findings.json")
    if not os.path.exists(p):
        return []
    with open(p) as f:
        return json.load(f).get("findings", [])


def match_known(prop, key, known):
    """key: failure class key or death signature. Returns the matching 'known' entry or None.
    'fixed' entries never match (they suppress nothing)."""
    for e in known:
        if e.get("property") != prop or e.get("status") != "known":
            continue
        m = e.get("match", {})
        t = m.get("type")
        if t == "key" and key == m.get("value"):
            return e
        if t == "signature" and key == m.get("value"):
            return e
        if t == "signature_prefix" and key.startswith(m.get("value")):
            return e
    return None


# ---------------------------------------------------------------------------------------------------
# verdict + evidence
# ---------------------------------------------------------------------------------------------------
def write_replay(prop, n, payload):
    d = os.path.join(BUILD, "replays", prop)
    os.makedirs(d, exist_ok=True)
    p = os.path.join(d, "%s_%d.json" % (time.strftime("%Y%m%d%H%M%S"), n))
    with open(p, "w") as f:
        json.dump(payload, f, indent=1)
    return p


def write_evidence(prop, tier, seed, coverage, wall, violations, assumptions=None, level="exploration"):
    ev = {
        "property_id": prop,
        "tier": tier,
        "seed": int(seed),
        "level": level,
        "coverage": coverage,
        "assumptions": assumptions or [],
        "wall_s": round(wall, 2),
        "violations": int(violations),
    }
    # tools/selftest_mutants.py points this elsewhere so runs against mutated scratch trees do not replace real evidence
    d = os.environ.get("VERIF_EVIDENCE_DIR")
    if not d:
        # a run against another tree (QENTEM_REPO: scratch worktrees of the self-test) never replaces the real evidence
        d = os.path.join(VERIF, "evidence") if os.path.realpath(REPO) == "/repo" else os.path.join(BUILD, "evidence-other-tree")
    os.makedirs(d, exist_ok=True)
    tmp = os.path.join(d, prop + ".json.tmp")
    with open(tmp, "w") as f:
        json.dump(ev, f, indent=1, sort_keys=False)
    os.replace(tmp, os.path.join(d, prop + ".json"))
    return ev


class Verdict:
    """Collects violations / known findings / inconclusive reasons for one check run."""

    def __init__(self, prop, tier, seed):
        self.prop = prop
        self.tier = tier
        self.seed = seed
        self.known = load_known()
        self.violations = []   # (key, replay payload, text)
        self.known_hits = {}   # id -> [entry, count]
        self.inconclusive = []
        self.t0 = time.time()

    def failure(self, key, payload, text, count=1):
        e = match_known(self.prop, key, self.known)
        if e is not None:
            h = self.known_hits.setdefault(e["id"], [e, 0])
            h[1] += count
            return False
        self.violations.append((key, payload, text))
        return True

    def absorb(self, res, cfgs_by_name, seed, extra_by_cfg=None, floor_cases=1):
        """Route every FAIL line and death of a RunResult through known-findings matching."""
        seen_keys = set()
        for (cfgname, case, key, detail, extra) in res.fails:
            payload = {"property": self.prop, "config": cfgs_by_name[cfgname].describe(), "seed": seed,
                       "case": case, "key": key, "detail": detail, "extra": extra}
            self.failure(key, payload, "%s case=%d %s: %s" % (cfgname, case, key, detail[:400]))
            seen_keys.add(key)
        # keys counted by the harness but whose FAIL lines were capped
        for key, n in res.fail_keys.items():
            if key not in seen_keys:
                self.failure(key, {"property": self.prop, "key": key, "seed": seed, "note": "count only"},
                             "%s x%d (lines capped)" % (key, n), count=n)
            else:
                e = match_known(self.prop, key, self.known)
                if e is not None:
                    self.known_hits[e["id"]][1] = max(self.known_hits[e["id"]][1], n)
        for d in res.deaths:
            payload = {"property": self.prop, "config": cfgs_by_name[d.cfgname].describe(), "seed": seed,
                       "case": d.case, "key": d.sig, "report": d.report[-3000:], "extra": d.extra}
            self.failure(d.sig, payload, "%s case=%d %s" % (d.cfgname, d.case, d.sig))
        self.inconclusive += res.inconclusive
        if res.wall_skipped:
            print("NOTE: property=%s %d case(s) not explored: the wall clock of a chunk expired twice (see evidence "
                  "cases_not_explored); non-termination is decided by the CPU-time watchdog, not by this clock" % (self.prop, res.wall_skipped))
        # cases skipped by the wall clock count towards the floor only up to half of it: a run that explored less than
        # half of what it planned says too little to be reported as "held"
        if res.cases + min(res.wall_skipped, floor_cases // 2) < floor_cases:
            self.inconclusive.append("only %d cases reached the monitors (floor %d)" % (res.cases, floor_cases))

    def finish(self, coverage, assumptions=None, level="exploration"):
        wall = time.time() - self.t0
        coverage = dict(coverage)
        coverage["known_findings_hit"] = {k: v[1] for k, v in self.known_hits.items()}
        coverage["inconclusive"] = self.inconclusive[:10]
        # distinct violation keys
        by_key = {}
        for key, payload, text in self.violations:
            by_key.setdefault(key, []).append((payload, text))
        coverage["violation_keys"] = sorted(by_key)[:50]
        write_evidence(self.prop, self.tier, self.seed, coverage, wall, len(by_key), assumptions, level)
        for eid, (e, n) in sorted(self.known_hits.items()):
            print("KNOWN-FINDING: property=%s %s [%s; hit %d time(s) in this run]" % (self.prop, e["what"], eid, n))
        n = 0
        for key, items in sorted(by_key.items()):
            payload, text = items[0]
            payload["occurrences_in_run"] = len(items)
            p = write_replay(self.prop, n, payload)
            n += 1
            print("VIOLATION property=%s replay=%s" % (self.prop, p))
            print("  key=%s  (%d occurrence(s))  %s" % (key, len(items), text[:600]))
        sys.stdout.flush()
        if by_key:
            return 1
        if self.inconclusive:
            for t in self.inconclusive[:10]:
                print("INCONCLUSIVE: %s" % t[:800])
            return 2
        print("OK property=%s tier=%s seed=%s wall=%.1fs" % (self.prop, self.tier, self.seed, wall))
        return 0


def workdir(prop):
    d = os.path.join(BUILD, "work", prop + ".%d" % os.getpid())
    if os.path.exists(d):
        shutil.rmtree(d)
    os.makedirs(d)
    return d


def cleanup(d):
    shutil.rmtree(d, ignore_errors=True)
