"""Offline history checker for C19: replays the operation log of harness/c19.cpp with python's exact int."""
import glob


def replay(paths):
    steps = 0
    hist = 0
    bad = []
    for path in paths:
        x = 0
        pending = None
        cur = None
        last_op = None
        with open(path) as f:
            for line in f:
                p = line.split()
                if not p or not line.endswith("\n"):
                    continue  # (a worker that died leaves its last record torn; the death is reported separately)
                if p[0] == "H":
                    cur = (int(p[1]), p[2])
                    x = 0
                    hist += 1
                    pending = None
                elif p[0] == "R":
                    pending = [int(v) for v in p[1:]]
                elif p[0] == "O":
                    name = p[1]
                    arg = int(p[2]) if len(p) > 2 else None
                    last_op = (name, arg)
                    if name in ("set-word", "set-u64"):
                        x = arg
                    elif name in ("add-word", "add-u64"):
                        x += arg
                    elif name in ("sub-word", "sub-u64"):
                        x -= arg
                    elif name == "mul-word":
                        x *= arg
                    elif name == "divide":
                        r = x % arg
                        x //= arg
                        if pending is None or pending[0] != r:
                            bad.append((cur, name, "remainder %s expected %d" % (pending, r)))
                    elif name == "div-assign":
                        x //= arg
                    elif name == "shift-left":
                        x <<= arg
                    elif name == "shift-right":
                        x >>= arg
                    elif name in ("or-word", "or-u64"):
                        x |= arg
                    elif name in ("and-word", "and-u64"):
                        x &= arg
                    elif name == "bit-scans":
                        ff = (x & -x).bit_length() - 1
                        fl = x.bit_length() - 1
                        if pending != [ff, fl]:
                            bad.append((cur, name, "scans %s expected %s" % (pending, [ff, fl])))
                    elif name == "assign-other":
                        x = arg << int(p[3])
                    elif name == "clear":
                        x = 0
                    elif name == "grow":
                        if x == 0:
                            x = 1
                        x <<= arg
                    elif name in ("compare", "narrow", "copy-move"):
                        pass
                    else:
                        bad.append((cur, name, "unknown operation"))
                    pending = None
                elif p[0] == "S":
                    steps += 1
                    if int(p[1], 16) != x:
                        bad.append((cur, last_op, "state 0x%s expected 0x%x" % (p[1], x)))
                        x = int(p[1], 16)  # resynchronise so that one defect is reported once
    return hist, steps, bad


if __name__ == "__main__":
    import sys
    print(replay(glob.glob(sys.argv[1] + ".*")))
