"""Reference semantics of template expressions (C04) - generator and exact evaluator.

Values: python int (exact) for natural/integer results, float for reals, NOVALUE when the documentation gives no
result (division / remainder by zero, fractional power, arithmetic on text or on a missing variable).
Every place where Documentation/Template.md does not fix the behaviour is *not generated* (see DESIGN.md C04 S).
"""
import math
from fractions import Fraction

NOVALUE = object()
MISSING = object()

U64 = 2 ** 64
I63 = 2 ** 63

LEVEL = {  # documented evaluation order: higher binds tighter
    "^": 6, "%": 6, "*": 5, "/": 5, "+": 4, "-": 4, "&": 3, "|": 3,
    "==": 2, "!=": 2, "<": 2, ">": 2, "<=": 2, ">=": 2, "&&": 1, "||": 1,
}


class Overflow(Exception):
    pass


def fits(v):
    if isinstance(v, int) and not isinstance(v, bool):
        if not (-I63 <= v < U64):
            raise Overflow()
    elif isinstance(v, float):
        if math.isinf(v) or math.isnan(v) or abs(v) > 1e15:
            raise Overflow()
    return v


# ---- AST: ("num", text, value) | ("var", path, value_or_MISSING) | ("text", s) | ("bin", op, l, r) | ("par", e)
def to_number(v):
    """number seen by arithmetic for a variable's python value; NOVALUE if it has none"""
    if v is MISSING:
        return NOVALUE
    if v is True:
        return 1
    if v is False or v is None:
        return 0
    if isinstance(v, (int, float)):
        return v
    if isinstance(v, str):
        return numeral(v)
    return NOVALUE


def numeral(s):
    """complete decimal numeral -> number, else NOVALUE (grammar of C09)"""
    import re
    if not re.fullmatch(r"[+-]?(0|[1-9][0-9]*)(\.[0-9]+)?([eE][+-]?[0-9]+)?", s):
        return NOVALUE
    if re.fullmatch(r"[+-]?[0-9]+", s):
        v = int(s)
        if s.startswith("-") and v == 0:
            return -0.0
        if -I63 <= v < U64:
            return v
    return float(s)


def is_num(v):
    return isinstance(v, (int, float)) and not isinstance(v, bool)


def text_of(v):
    """text seen by == for a non-number variable value"""
    if v is True:
        return "true"
    if v is False:
        return "false"
    if v is None:
        return "null"
    if isinstance(v, str):
        return v
    return NOVALUE


def truth(v):
    return 1 if v > 0 else 0


# Engine quirks the reference can reproduce on request, ONLY to classify a mismatch as a recorded finding:
#   "natural_as_signed": naturals >= 2^63 are compared (and divided for %) through their signed bit pattern
#   "negpow_sign":    (negative base)^(negative exponent) keeps the base's sign whatever the exponent's parity
QUIRKS = set()
QUIRK_HIT = set()


def _cmp_operand(v):
    if "natural_as_signed" in QUIRKS and isinstance(v, int) and v >= I63:
        QUIRK_HIT.add("natural_as_signed")
        return v - U64
    return v


ALLOW_REAL_ZERO = False  # set by checks/c04.py
MAXMAG = [0.0]  # largest magnitude that took part in a real computation (for the association tolerance)


def _typed(v, t=None):
    """(value, kind) with kind N (unsigned), I (signed), R (real); range-checked: N in [0,2^64), I in [-2^63,2^63)"""
    if isinstance(v, float):
        if math.isinf(v) or math.isnan(v) or abs(v) > 1e15:
            raise Overflow()
        if v == 0.0 and not ALLOW_REAL_ZERO and not QUIRKS:
            # a real zero may be -0.0 in the engine (association order) and how that prints is not documented: the C02
            # reference (which compares rendered text) discards such expressions; C04 compares values, accepts either
            # print, and keeps them because a zero divisor of either sign must give no value
            raise Overflow()
        return (v, "R")
    if t is None:
        t = "N" if v >= 0 else "I"
    if t == "N" and v < 0:
        t = "I"
    if t == "N" and not (0 <= v < U64):
        if QUIRKS and QUIRK_HIT:
            return (v % U64, t)  # classification mode: follow the engine's 64-bit wrap-around downstream of a recorded quirk
        raise Overflow()
    if t == "I" and not (-I63 <= v < I63):
        if QUIRKS and QUIRK_HIT:
            return (((v + I63) % U64) - I63, t)  # (same: two's-complement wrap, only after a recorded quirk has already fired)
        raise Overflow()
    return (v, t)


def _promote(ta, tb):
    if "R" in (ta, tb):
        return "R"
    if "I" in (ta, tb):
        return "I"
    return "N"


def evaluate(e):
    """-> int | float | NOVALUE. Raises Overflow when the case must be discarded."""
    r = _eval(e)
    return NOVALUE if r is NOVALUE else r[0]


def _eval(e):
    """typed evaluation following the documented promotion unsigned -> signed -> real"""
    k = e[0]
    if k == "num":
        return _typed(e[2])
    if k == "par":
        return _eval(e[1])
    if k == "var":
        n = to_number(e[2])
        return NOVALUE if n is NOVALUE else _typed(n)
    if k == "text":
        return NOVALUE
    op, l, r = e[1], e[2], e[3]
    if op in ("==", "!="):
        res = equal(l, r)
        if res is NOVALUE:
            return NOVALUE
        return (res if op == "==" else 1 - res, "N")
    x = _eval(l)
    y = _eval(r)
    if x is NOVALUE or y is NOVALUE:
        return NOVALUE
    (a, ta), (b, tb) = x, y
    t = _promote(ta, tb)
    if t == "R" or op == "/":
        MAXMAG[0] = max(MAXMAG[0], abs(float(a)), abs(float(b)))
        for x in (a, b):
            if isinstance(x, int) and abs(x) > 2 ** 53:
                raise Overflow()  # not exactly representable as a real: the result would depend on rounding order
    if t == "I":
        # a signed computation: both operands must fit the signed range
        _typed(a, "I")
        _typed(b, "I")
    if op == "+":
        return _typed(a + b, t) if t != "R" else _typed(float(a) + float(b))
    if op == "-":
        return _typed(a - b, t) if t != "R" else _typed(float(a) - float(b))
    if op == "*":
        return _typed(a * b, t) if t != "R" else _typed(float(a) * float(b))
    if op == "/":
        if b == 0:
            return NOVALUE
        if a == 0 and b < 0 and not ALLOW_REAL_ZERO:
            raise Overflow()  # IEEE gives -0.0
        return _typed(float(Fraction(a) / Fraction(b)))
    if op == "%":
        ia = int(_cmp_operand(a)) if isinstance(a, int) else int(a)
        ib = int(_cmp_operand(b)) if isinstance(b, int) else int(b)
        if "natural_as_signed" not in QUIRKS and (ia >= I63 or ib >= I63):
            pass  # exact arithmetic below; the engine result is classified through the quirk
        if ib == 0:
            return NOVALUE
        q = abs(ia) % abs(ib)
        return _typed(q if ia >= 0 else -q, "I")
    if op == "^":
        if isinstance(a, float) and 0 < abs(a) < 1:
            return NOVALUE
        if isinstance(b, float) and 0 < abs(b) < 1:
            return NOVALUE
        ia, ib = int(a), int(b)
        if ia == 0 and ib == 0:
            raise Overflow()  # 0^0: not generated
        if ib >= 0:
            if abs(ia) > 1 and ib > 64:
                raise Overflow()
            if abs(ia) ** ib >= U64:
                raise Overflow()
            return _typed(ia ** ib)
        if ia == 0:
            raise Overflow()  # 0^negative: not generated
        if abs(ia) > 1 and -ib > 64:
            raise Overflow()
        if abs(ia) ** (-ib) >= U64:
            raise Overflow()  # the intermediate power does not fit 64 bits
        res = float(Fraction(1, ia ** (-ib)))
        if "negpow_sign" in QUIRKS and ia < 0 and (-ib) % 2 == 0:
            QUIRK_HIT.add("negpow_sign")
            res = -res
        return _typed(res)
    if op in ("&", "|"):
        # bitwise operators: only on non-negative integer-class operands below 2^63 (anything else is not documented)
        if t == "R" or not (0 <= a < I63) or not (0 <= b < I63):
            if QUIRKS and QUIRK_HIT and t != "R":
                # classification mode only: a recorded quirk made an operand negative; follow the two's-complement
                # arithmetic of the engine so that the consequence is attributed to that quirk
                m = U64 - 1
                v = (int(a) & m) & (int(b) & m) if op == "&" else (int(a) & m) | (int(b) & m)
                return _typed(v - U64 if v >= I63 else v, "I")
            raise Overflow()
        return _typed(int(a) & int(b) if op == "&" else int(a) | int(b), t)
    if op in ("<", "<=", ">", ">="):
        fa, fb = Fraction(_cmp_operand(a)), Fraction(_cmp_operand(b))
        res = {"<": fa < fb, "<=": fa <= fb, ">": fa > fb, ">=": fa >= fb}[op]
        return (1 if res else 0, "N")
    if op == "&&":
        return (1 if (a > 0 and b > 0) else 0, "N")
    if op == "||":
        return (1 if (a > 0 or b > 0) else 0, "N")
    raise ValueError(op)


def strip_par(e):
    while e[0] == "par":
        e = e[1]
    return e


def side(e):
    """-> ('num', value) | ('text', s) | ('var', value) | NOVALUE for one side of == / !="""
    e0 = strip_par(e)
    if e0[0] == "var":
        if e[0] == "par":  # a parenthesised variable is converted to a number (documented: "use parentheses")
            n = to_number(e0[2])
            return ("num", n) if n is not NOVALUE else NOVALUE
        return ("var", e0[2])
    if e0[0] == "text":
        return ("text", e0[1])
    v = evaluate(e)
    if v is NOVALUE:
        return NOVALUE
    return ("num", v)


def equal(l, r):
    a, b = side(l), side(r)
    if a is NOVALUE or b is NOVALUE:
        return NOVALUE
    if a[0] == "var" and a[1] is MISSING:
        return NOVALUE
    if b[0] == "var" and b[1] is MISSING:
        return NOVALUE
    an = a[0] == "num" or (a[0] == "var" and is_num(a[1]))
    bn = b[0] == "num" or (b[0] == "var" and is_num(b[1]))
    if an or bn:
        x = a[1] if a[0] == "num" else (to_number(a[1]) if a[0] == "var" else NOVALUE)
        y = b[1] if b[0] == "num" else (to_number(b[1]) if b[0] == "var" else NOVALUE)
        if x is NOVALUE or y is NOVALUE:
            return NOVALUE
        fits(x)
        fits(y)
        return 1 if Fraction(x) == Fraction(y) else 0
    x = a[1] if a[0] == "text" else text_of(a[1])
    y = b[1] if b[0] == "text" else text_of(b[1])
    if x is NOVALUE or y is NOVALUE:
        return NOVALUE
    return 1 if x == y else 0


def is_real_class(e):
    """does ordinary arithmetic with the documented promotions give a real here? (only meaningful when it has a value)"""
    e0 = strip_par(e)
    k = e0[0]
    if k == "num":
        return isinstance(e0[2], float)
    if k == "var":
        return isinstance(to_number(e0[2]), float)
    if k == "text":
        return False
    op = e0[1]
    if op == "/":
        return True
    if op in ("%", "&", "|", "==", "!=", "<", "<=", ">", ">=", "&&", "||"):
        return False
    if op == "^":
        b = evaluate(e0[3])
        return b is not NOVALUE and b < 0
    return is_real_class(e0[2]) or is_real_class(e0[3])


# ------------------------------------------------------------------ printing
def show(e, r, parent_op=None, right_side=False):
    k = e[0]
    if k == "num":
        return e[1]
    if k == "var":
        return "{var:" + e[1] + "}"
    if k == "text":
        return e[1]
    if k == "par":
        return "(" + sp(r) + show(e[1], r) + sp(r) + ")"
    op, l, rr = e[1], e[2], e[3]
    return show(l, r, op, False) + sp(r) + op + sp(r) + show(rr, r, op, True)


def sp(r):
    return " " if r.random() < 0.4 else ""


# ------------------------------------------------------------------ generation
class ExprGen:
    """names: dict name -> python value (scalars only) available as {var:name}; missing names give MISSING"""

    def __init__(self, r, names):
        self.r = r
        self.names = names
        self.pairs = set()

    def literal(self, intclass=False, small=False, nonneg=False):
        r = self.r
        k = r.randint(0, 9)
        if small:
            v = r.randint(0, 6)
            return ("num", str(v), v)
        if k <= 3:
            v = r.randint(0, 20)
            return ("num", str(v), v)
        if k == 4:
            v = r.randint(0, 100000)
            return ("num", str(v), v)
        if k == 5 and not nonneg:
            v = -r.randint(1, 50)
            return ("num", str(v), v)
        if k == 6 and not intclass:
            a, b = r.randint(0, 99), r.choice([0, 25, 5, 75, 50, 1, 99])
            t = "%d.%02d" % (a, b)
            return ("num", t, float(t))
        if k == 7 and not intclass:
            m, x = r.randint(1, 9), r.randint(0, 4)
            t = "%de%d" % (m, x)
            return ("num", t, float(t))
        if k == 8:
            v = r.choice([2 ** 32, 2 ** 53 - 1, 10 ** 9])
            return ("num", str(v), v)
        v = r.randint(0, 9)
        return ("num", str(v), v)

    def variable(self, want=None):
        """want: None any | 'int' integer-class numeric | 'num' numeric"""
        r = self.r
        cands = []
        for n, v in self.names.items():
            num = to_number(v)
            if want == "int" and not (isinstance(num, int) and num is not NOVALUE and 0 <= num < I63):
                continue
            if want == "num" and num is NOVALUE:
                continue
            cands.append(n)
        if not cands:
            return None
        n = r.choice(cands)
        return ("var", n, self.names[n])

    def operand(self, depth, intclass=False, small=False, nonneg=False):
        r = self.r
        k = r.random()
        if depth > 0 and k < 0.3:
            inner = self.tree(depth - 1, intclass=intclass)
            i0 = strip_par(inner)
            if i0[0] == "text" or (i0[0] == "var" and to_number(i0[2]) is NOVALUE):
                inner = self.literal(intclass=intclass)  # "(lone non-numeric variable)" is not documented
            return ("par", inner)
        if k < 0.6 and not small:
            v = self.variable("int" if intclass else ("num" if r.random() < 0.85 else None))
            if v is not None:
                return v
        if k < 0.65 and not intclass and not small:
            return ("var", "missing_" + str(r.randint(0, 3)), MISSING)
        lit = self.literal(intclass=intclass, small=small, nonneg=nonneg)
        if r.random() < 0.15:
            return ("par", lit)
        return lit

    def tree(self, depth, intclass=False):
        r = self.r
        if depth == 0 or r.random() < 0.2:
            return self.operand(0, intclass=intclass)
        ops = ["+", "-", "*", "%", "&", "|"] if intclass else ["+", "-", "*", "/", "%", "^", "&", "|", "==", "!=", "<", ">", "<=", ">=", "&&", "||"]
        op = r.choice(ops)
        if op in ("&", "|"):
            l = self.sub(depth - 1, op, intclass=True, nonneg=True)
            rr = self.sub(depth - 1, op, intclass=True, nonneg=True, right=True)
        elif op == "^":
            l = self.pow_base(depth - 1)
            rr = self.pow_exp()
        elif op in ("==", "!=") and r.random() < 0.3:
            l, rr = self.text_pair()
        elif op in ("==", "!=", "<", "<=", ">", ">=") and r.random() < 0.3:
            l, rr = self.near_pair()
        else:
            l = self.sub(depth - 1, op, intclass=intclass)
            rr = self.sub(depth - 1, op, intclass=intclass, right=True)
        return ("bin", op, l, rr)

    def near_pair(self):
        """two operands of a comparison whose values are equal or one apart, written in different numeric kinds
        (unsigned / signed / real): equality across kinds is where a comparison goes wrong first"""
        r = self.r
        v = r.choice([0, 1, -1, 2, -2, 3, -4, 5, -7, 12, -12, 50, -50, 1000, -1000])
        v += r.choice([0, 0, 0, 1, -1])

        def spell(x, kind):
            if kind == "int":  # literal, or a difference (signed result)
                if r.random() < 0.5:
                    return ("num", str(x), x) if x >= 0 else ("par", ("num", str(x), x))
                a = r.randint(0, 20)
                return ("par", ("bin", "-", ("num", str(x + a), x + a) if x + a >= 0 else ("par", ("num", str(x + a), x + a)), ("num", str(a), a)))
            if kind == "real":  # a quotient (always real), or a decimal literal
                if r.random() < 0.6:
                    d = r.choice([2, 4, 5])
                    n = x * d
                    return ("par", ("bin", "/", ("num", str(n), n) if n >= 0 else ("par", ("num", str(n), n)), ("num", str(d), d)))
                t = "%d.0" % x
                return ("num", t, float(x)) if x >= 0 else ("par", ("num", t, float(x)))
            # half: a real that is exactly representable and not integral
            t = "%d.5" % abs(x)
            val = float(t) if x >= 0 else -float(t)
            return ("num", t, val) if x >= 0 else ("par", ("num", "-" + t, val))

        w = v + r.choice([0, 0, 0, 1, -1])
        kl, kr = r.choice(["int", "real", "half"]), r.choice(["int", "real", "half"])
        return spell(v, kl), spell(w, kr)

    def whole(self, depth):
        """a complete expression; one in eight is wrapped in one outer pair of parentheses (a separate path in the engine)"""
        e = self.tree(depth)
        if e[0] == "bin" and self.r.random() < 0.125:
            e = ("par", e)
        return e

    def sub(self, depth, parent, intclass=False, nonneg=False, right=False):
        """operand of `parent`; parenthesised whenever the documentation leaves the grouping open"""
        r = self.r
        e = self.tree(depth, intclass=intclass) if depth > 0 and r.random() < 0.6 else self.operand(depth, intclass=intclass, nonneg=nonneg)
        if nonneg and e[0] == "bin":
            e = ("par", e)  # keep bitwise operands syntactically simple
        if e[0] == "bin":
            child = e[1]
            lp, lc = LEVEL[parent], LEVEL[child]
            need = False
            if lc < lp:
                need = True
            elif lc == lp:
                # same level: only + - and * / chains of the left operand stay bare (ordinary left-to-right arithmetic)
                if right or child != parent and not ({parent, child} <= {"+", "-"} or {parent, child} <= {"*", "/"}):
                    need = True
                if parent in ("^", "%", "&", "|", "==", "!=", "<", ">", "<=", ">=", "&&", "||"):
                    need = True
            if need:
                e = ("par", e)
            self.pairs.add((parent, child))
        return e

    def pow_base(self, depth):
        r = self.r
        k = r.random()
        if k < 0.5:
            v = r.randint(0, 12)
            return ("num", str(v), v)
        if k < 0.65:
            v = -r.randint(1, 9)
            return ("par", ("num", str(v), v))
        if k < 0.85:
            v = self.variable("int")
            if v is not None:
                return v
        inner = self.tree(max(depth, 0), intclass=True)
        i0 = strip_par(inner)
        if i0[0] == "var" and to_number(i0[2]) is NOVALUE:
            inner = self.literal(intclass=True)
        return ("par", inner)

    def pow_exp(self):
        r = self.r
        k = r.random()
        if k < 0.7:
            v = r.randint(0, 9)
            return ("num", str(v), v)
        if k < 0.85:
            v = -r.randint(1, 4)
            return ("num", str(v), v)
        v = r.choice([0.5, 0.25, -0.5, -0.25, -0.75, 0.75])  # fractional powers of either sign: no value
        if v < 0 and r.random() < 0.5:
            return ("par", ("bin", "-", ("num", "0", 0), ("num", repr(-v), -v)))  # the same exponent as a difference
        return ("num", repr(v), v)

    def text_pair(self):
        r = self.r
        words = ["abc", "a", "true", "null", "x1", "Qentem"]

        def one():
            k = r.random()
            if k < 0.5:
                names = [n for n, v in self.names.items() if isinstance(v, str) or v is True or v is False or v is None]
                if names:
                    n = r.choice(names)
                    return ("var", n, self.names[n])
            return ("text", r.choice(words))
        return one(), one()
