"""Reference interpreter + generator for well-formed templates (C02), written from Documentation/Template.md.

The generator builds a value tree and an AST together (so it knows which paths exist), prints the AST in template
syntax and evaluates the same AST with the semantics the documentation states. Whatever the documentation leaves
open is not generated (DESIGN.md C02 S).
"""
import json
import re

import expr as X

MISSING = X.MISSING


# ------------------------------------------------------------------ value helpers
def escape_html(s):
    """EscapeHTMLSpecialChars: the five characters, with already-escaped entities passed through"""
    out = []
    i = 0
    n = len(s)
    while i < n:
        c = s[i]
        if c == "&":
            hit = False
            for ent in ("&quot;", "&apos;", "&amp;", "&lt;", "&gt;"):
                if s.startswith(ent, i):
                    out.append(ent)
                    i += len(ent)
                    hit = True
                    break
            if hit:
                continue
            out.append("&amp;")
        elif c == "<":
            out.append("&lt;")
        elif c == ">":
            out.append("&gt;")
        elif c == '"':
            out.append("&quot;")
        elif c == "'":
            out.append("&apos;")
        else:
            out.append(c)
        i += 1
    return "".join(out)


def fmt_real(x):
    s = "%.2f" % x
    if "." in s:
        s = s.rstrip("0").rstrip(".")
    return s


def scalar_text(v):
    """printable text of a value or None when it is not printable"""
    if v is MISSING:
        return None
    if v is True:
        return "true"
    if v is False:
        return "false"
    if v is None:
        return "null"
    if isinstance(v, str):
        return v
    if isinstance(v, int):
        return str(v)
    if isinstance(v, float):
        return fmt_real(v)
    return None


def lookup(cur, seg):
    if isinstance(cur, dict):
        return cur.get(seg, MISSING)
    if isinstance(cur, list):
        if re.fullmatch(r"[0-9]+", seg) and int(seg) < len(cur):
            return cur[int(seg)]
        return MISSING
    return MISSING


def group_name(v):
    if isinstance(v, float):
        return "%.15g" % v
    return scalar_text(v)


# ------------------------------------------------------------------ evaluation
class Env:
    def __init__(self, root, escape):
        self.root = root
        self.escape = escape
        self.loops = []  # (name, item, key or None)

    def resolve(self, path):
        segs = re.findall(r"[^\[\]]+", path)
        first = segs[0]
        for name, item, _ in reversed(self.loops):
            if first == name:
                cur = item
                break
        else:
            cur = lookup(self.root, first)
        for s in segs[1:]:
            if cur is MISSING:
                return MISSING
            cur = lookup(cur, s)
        return cur

    def loop_key(self, path):
        """key of the loop whose value name the path starts with (only for a bare loop variable)"""
        for name, _, key in reversed(self.loops):
            if path == name:
                return key
        return None


def render(nodes, env):
    return "".join(render_node(n, env) for n in nodes)


def eval_expr(e, env):
    return X.evaluate(bind(e, env))


def bind(e, env):
    k = e[0]
    if k == "var":
        v = env.resolve(e[1])
        if isinstance(v, (dict, list)):
            v = MISSING  # containers have no number and no text
        return ("var", e[1], v)
    if k == "par":
        return ("par", bind(e[1], env))
    if k == "bin":
        return ("bin", e[1], bind(e[2], env), bind(e[3], env))
    return e


def render_node(n, env):
    k = n["k"]
    if k == "text":
        return n["s"]
    if k in ("var", "raw"):
        v = env.resolve(n["path"])
        t = scalar_text(v)
        src = n["src"]
        if k == "raw":
            return t if t is not None else src
        if t is not None:
            return escape_html(t) if env.escape else t
        key = env.loop_key(n["path"])
        if key:
            return escape_html(key) if env.escape else key
        return escape_html(src) if env.escape else src
    if k == "math":
        v = eval_expr(n["e"], env)
        if v is X.NOVALUE:
            return n["src"]
        return fmt_real(v) if isinstance(v, float) else str(v)
    if k == "svar":
        ph = env.resolve(n["path"])
        if not isinstance(ph, str):
            return n["src"]
        out = []
        i = 0
        last = 0
        s = ph
        while i < len(s):
            if s[i] == "{" and i + 2 < len(s) and s[i + 2] == "}" and "0" <= s[i + 1] <= "9" and int(s[i + 1]) < len(n["subs"]):
                chunk = s[last:i]
                out.append(escape_html(chunk) if env.escape else chunk)
                out.append(render_node(n["subs"][int(s[i + 1])], env))
                i += 3
                last = i
                continue
            i += 1
        chunk = s[last:]
        out.append(escape_html(chunk) if env.escape else chunk)
        return "".join(out)
    if k == "iif":
        v = eval_expr(n["e"], env)
        if v is X.NOVALUE:
            return ""  # only generated without a false branch
        return render(n["t"], env) if v > 0 else render(n["f"], env)
    if k == "iifs":  # {if case="{var:s}" ...}: a lone string variable is true when the string is not empty
        v = env.resolve(n["path"])
        num = X.to_number(v) if not isinstance(v, (dict, list)) else X.NOVALUE
        if num is not X.NOVALUE:
            ok = num > 0
        else:
            ok = isinstance(v, str) and len(v) > 0
        return render(n["t"], env) if ok else render(n["f"], env)
    if k == "if":
        for e, body in n["cases"]:
            if e is None:
                return render(body, env)
            v = eval_expr(e, env)
            if v is not X.NOVALUE and v > 0:
                return render(body, env)
        return ""
    if k == "loop":
        s = env.root if n["set"] is None else env.resolve(n["set"])
        if n["group"] is not None:
            if not isinstance(s, list):
                return ""
            g = {}
            for rec in s:
                name = group_name(rec[n["group"]])
                g.setdefault(name, []).append({a: b for a, b in rec.items() if a != n["group"]})
            s = g
        if n["sort"] is not None:
            asc = n["sort"] == "ascend"
            if isinstance(s, list):
                s = sorted(s, reverse=not asc)
            elif isinstance(s, dict):
                s = dict(sorted(s.items(), key=lambda kv: kv[0], reverse=not asc))
        out = []
        if isinstance(s, list):
            for item in s:
                env.loops.append((n["value"], item, None))
                out.append(render(n["body"], env))
                env.loops.pop()
        elif isinstance(s, dict):
            for key, item in s.items():
                env.loops.append((n["value"], item, key))
                out.append(render(n["body"], env))
                env.loops.pop()
        return "".join(out)
    raise ValueError(k)


# ------------------------------------------------------------------ printing
def show(nodes):
    return "".join(n["src"] for n in nodes)


# ------------------------------------------------------------------ generation
WORDS = ["Hello ", "x", " - ", "ok, ", "a=b", "<b>", "</b>", "&amp;", "1 < 2", "\n", ": ", "(", ")", "[", "]", ".", "; ", "Q'q\"", "{", "}", "<br/>", "100%", "  ",
         # HTML fragments, so that tags also sit inside attributes and right before '>' or a quote
         "<div class=\"", "\">", "\"/>", "<a href='", "'>", "</div>", "<td>", ">", "\"", "'", "=", "/", "<p id=x>", "<", "!", "-->", "<!--"]
KEYS = ["name", "title", "n", "m", "y", "k", "item", "list", "obj", "a", "b", "c", "d", "id", "tags", "rows", "flag"]
STRS = ["Qentem", "a<b", "x&y", "\"q\"", "it's", "&amp;", "&lt;tag&gt;", "plain text", "", "12", "-3", "2.5", "true", "abc", "A", "zz top",
        "12px", "2021-05-01", "3.5%", "7 ", "1.2.3", "1e"]  # the last six only start with a numeral: not numbers


class Gen:
    def __init__(self, r):
        self.r = r
        self.stats = {}
        self.loopn = 0

    def count(self, k):
        self.stats[k] = self.stats.get(k, 0) + 1

    # ---- values
    def scalar(self):
        r = self.r
        k = r.randint(0, 9)
        if k == 0:
            return r.randint(0, 20)
        if k == 1:
            return r.randint(0, 100000)
        if k == 2:
            return -r.randint(1, 500)
        if k == 3:
            return r.choice([2.5, 0.25, 3.75, 11150.001, 100.5, 0.5, 7.125, 1234.5])
        if k == 4:
            return r.choice([True, False])
        if k == 5:
            return None
        return r.choice(STRS)

    def value(self, depth):
        r = self.r
        k = r.randint(0, 9 if depth > 0 else 5)
        if k <= 5:
            return self.scalar()
        if k <= 7:
            kind = r.randint(0, 3)
            n = r.randint(0, 4)
            if kind == 0:
                return [r.randint(0, 50) for _ in range(n)]
            if kind == 1:
                return [r.choice(STRS[:8] + ["b", "ab", "abc"]) for _ in range(n)]
            if kind == 2:
                keys = r.sample(KEYS, 3)
                return [{keys[0]: r.randint(0, 3) if r.random() < 0.7 else r.choice(["g1", "g2"]), keys[1]: self.scalar(), keys[2]: self.scalar()} if r.random() < 0.5
                        else {keys[1]: self.scalar(), keys[0]: r.randint(0, 3) if r.random() < 0.7 else r.choice(["g1", "g2"])} for _ in range(n)]
            return [self.value(depth - 1) for _ in range(n)]
        d = {}
        for key in r.sample(KEYS, r.randint(0, 4)):
            d[key] = self.value(depth - 1)
        return d

    def root(self):
        r = self.r
        if r.random() < 0.12:
            return [self.value(2) for _ in range(r.randint(0, 4))]
        d = {}
        for key in r.sample(KEYS, r.randint(2, 7)):
            d[key] = self.value(2)
        d["phrase"] = r.choice(["Welcome {0} to {1}.", "{0}{0}{1}", "no holes", "{2} <b>{0}</b> {9} {x} { {1}", "{0}"])
        return d

    # ---- paths
    def paths(self, scope):
        """scope: list of (prefix, value) roots -> [(path, value)] for every reachable node"""
        out = []

        def walk(p, v, depth):
            out.append((p, v))
            if depth > 3:
                return
            if isinstance(v, dict):
                for k2, x in v.items():
                    walk(p + "[" + k2 + "]", x, depth + 1)
            elif isinstance(v, list):
                for i, x in enumerate(v):
                    walk(p + "[" + str(i) + "]", x, depth + 1)
        for prefix, v in scope:
            if prefix is None:  # the root: first segment is bare
                if isinstance(v, dict):
                    for k2, x in v.items():
                        walk(k2, x, 1)
                elif isinstance(v, list):
                    for i, x in enumerate(v):
                        walk(str(i), x, 1)
            else:
                walk(prefix, v, 0)
        return [(p, v) for p, v in out if len(p) <= 32 and p != ""]

    def pick_path(self, scope, want=None, in_object_loop_vars=()):
        r = self.r
        ps = self.paths(scope)
        if want == "scalar":
            ps = [(p, v) for p, v in ps if not isinstance(v, (dict, list))]
        elif want == "container":
            ps = [(p, v) for p, v in ps if isinstance(v, (dict, list))]
        elif want == "string":
            ps = [(p, v) for p, v in ps if isinstance(v, str)]
        if not ps:
            return None
        return r.choice(ps)

    def missing_path(self, scope, objloop_vars):
        r = self.r
        k = r.randint(0, 3)
        if k == 0:
            return "nothing"
        base = self.pick_path(scope)
        if base is None:
            return "nothing"
        p = base[0]
        first = re.findall(r"[^\[\]]+", p)[0]
        if first in objloop_vars:
            return "nothing"  # {var:v[missing]} inside an object loop is not documented
        return (p + "[" + r.choice(["zzz", "99", "q"]) + "]")[:40]

    # ---- nodes
    def text(self):
        r = self.r
        s = "".join(r.choice(WORDS) for _ in range(r.randint(0, 3)))
        return {"k": "text", "s": s, "src": s}

    def var(self, scope, objloop_vars, raw=None):
        r = self.r
        raw = (r.random() < 0.3) if raw is None else raw
        k = r.random()
        if k < 0.7:
            got = self.pick_path(scope, "scalar")
            path = got[0] if got else "nothing"
        elif k < 0.85:
            got = self.pick_path(scope)
            path = got[0] if got else "nothing"
            first = re.findall(r"[^\[\]]+", path)[0]
            if first in objloop_vars and path != first:
                path = first  # only the bare loop variable prints the key
        else:
            path = self.missing_path(scope, objloop_vars)
        tag = "raw" if raw else "var"
        self.count(tag)
        return {"k": tag, "path": path, "src": "{%s:%s}" % (tag, path)}

    def names_for_expr(self, scope):
        names = {}
        for p, v in self.paths(scope):
            if not isinstance(v, (dict, list)) and len(p) <= 28:
                names[p] = v
        if len(names) > 14:
            keys = self.r.sample(sorted(names), 14)
            names = {k2: names[k2] for k2 in keys}
        return names

    def expr(self, scope, depth=2):
        for _ in range(20):
            g = X.ExprGen(self.r, self.names_for_expr(scope))
            e = g.whole(self.r.randint(1, depth))
            e0 = X.strip_par(e)
            if e0[0] == "text" or (e0[0] == "var" and X.to_number(e0[2]) is X.NOVALUE):
                continue
            return strip_values(e)
        return ("num", "1", 1)

    def math(self, scope):
        e = self.expr(scope)
        self.count("math")
        pad = " " if self.r.random() < 0.3 else ""
        return {"k": "math", "e": e, "src": "{math:" + pad + X.show(e, self.r) + pad + "}"}

    def inline_tag(self, scope, objloop_vars):
        k = self.r.random()
        if k < 0.5:
            return self.var(scope, objloop_vars, raw=False)
        if k < 0.75:
            return self.var(scope, objloop_vars, raw=True)
        return self.math(scope)

    def svar(self, scope, objloop_vars):
        r = self.r
        # the phrase is looked up from the root value (the documentation shows nothing else)
        root_scope = [(p, v) for p, v in scope if p is None]
        got = self.pick_path(root_scope, "string") if r.random() < 0.85 else None
        path = got[0] if got else self.missing_path(root_scope, objloop_vars)
        if r.random() < 0.5 and any(p == "phrase" for p, _ in self.paths(scope)):
            path = "phrase"
        subs = [self.inline_tag(scope, objloop_vars) for _ in range(r.randint(1, 4))]  # {svar:x} without sub-tags is not a tag
        src = "{svar:" + path + "".join(", " + s["src"] for s in subs) + "}"
        self.count("svar")
        return {"k": "svar", "path": path, "subs": subs, "src": src}

    def branch_parts(self, scope, objloop_vars, q):
        r = self.r
        parts = []
        for _ in range(r.randint(0, 3)):
            if r.random() < 0.5:
                s = "".join(r.choice(["yes", "no", " ", "Hello", "a=b", "ok,", ".", "(", ")", "<b>", "&amp;", "}", "n}o", "{", "} "]) for _ in range(r.randint(1, 2)))
                parts.append({"k": "text", "s": s, "src": s})
            else:
                parts.append(self.inline_tag(scope, objloop_vars))
        return parts

    def iif(self, scope, objloop_vars):
        r = self.r
        q = '"' if r.random() < 0.75 else "'"
        if r.random() < 0.2:
            got = self.pick_path(scope, "string")
            if got:
                t = self.branch_parts(scope, objloop_vars, q)
                f = self.branch_parts(scope, objloop_vars, q)
                node = {"k": "iifs", "path": got[0], "t": t, "f": f}
                case = "{var:" + got[0] + "}"
                return self.iif_src(node, case, t, f, q)
        e = self.expr(scope)
        t = self.branch_parts(scope, objloop_vars, q)
        novalue_possible = has_risky(e)
        f = [] if novalue_possible else self.branch_parts(scope, objloop_vars, q)
        node = {"k": "iif", "e": e, "t": t, "f": f}
        return self.iif_src(node, X.show(e, r), t, f, q, allow_false=not novalue_possible)

    def iif_src(self, node, case, t, f, q, allow_false=True):
        r = self.r
        other = "'" if q == '"' else '"'
        for p in t + f:
            if q in p["src"]:
                # a quote inside a branch would end the attribute: switch the branch text to the other quote kind
                p["src"] = p["src"].replace(q, other)
                if p["k"] == "text":
                    p["s"] = p["s"].replace(q, other)
        atts = [("case", case)]
        atts.append(("true", show(t)))
        if f or (allow_false and r.random() < 0.5):
            atts.append(("false", show(f)))
        else:
            node["f"] = []
        order = list(range(len(atts)))
        if r.random() < 0.06:
            r.shuffle(order)  # documented as "OK" in any order
            if order[0] != 0:
                node["case_not_first"] = True
                self.count("inline_if_case_not_first")
        else:
            rest = order[1:]
            r.shuffle(rest)
            order = [0] + rest
        eq = r.choice(["=", " = ", "= "])
        src = "{if " + " ".join("%s%s%s%s%s" % (atts[i][0], eq if atts[i][0] != "case" or r.random() < 0.5 else "=", q, atts[i][1], q) for i in order) + "}"
        if q in case:
            return self.text()
        node["src"] = src
        self.count("inline_if")
        return node

    def if_block(self, scope, loops, objloop_vars, depth):
        r = self.r
        q = '"' if r.random() < 0.75 else "'"
        cases = []
        e = self.expr(scope)
        body = self.body(scope, loops, objloop_vars, depth - 1)
        src = "<if case=" + q + X.show(e, r) + q + ">" + show(body)
        cases.append((e, body))
        for _ in range(r.randint(0, 2)):
            e2 = self.expr(scope)
            b2 = self.body(scope, loops, objloop_vars, depth - 1)
            src += r.choice(["<else if case=", "<elseif case="]) + q + X.show(e2, r) + q + r.choice([" />", ">", " >"]) + show(b2)
            cases.append((e2, b2))
        if r.random() < 0.5:
            b3 = self.body(scope, loops, objloop_vars, depth - 1)
            src += r.choice(["<else />", "<else>"]) + show(b3)
            cases.append((None, b3))
        src += "</if>"
        if q in "".join(X.show(c[0], r) for c in cases if c[0] is not None):
            return self.text()
        self.count("if")
        return {"k": "if", "cases": cases, "src": src}

    def loop(self, scope, loops, objloop_vars, depth):
        r = self.r
        if self.loopn >= 20:
            return self.text()
        q = '"' if r.random() < 0.75 else "'"
        name = "lv" + "ABCDEFGHIJKLMNOPQRSTUVWXYZ"[self.loopn]
        self.loopn += 1
        got = self.pick_path(scope, "container") if r.random() < 0.9 else self.pick_path(scope)
        root_val = scope[0][1]
        use_root = got is None or (r.random() < 0.1 and len(loops) == 0)
        setp, setv = (None, root_val) if use_root else got
        group = None
        sort = None
        if isinstance(setv, list) and setv and all(isinstance(x, dict) for x in setv):
            common = set(setv[0])
            for x in setv:
                common &= set(x)
            cands = [k2 for k2 in common if all(not isinstance(x[k2], (dict, list, float)) for x in setv)]
            if cands and r.random() < 0.5:
                group = r.choice(sorted(cands))
        if r.random() < 0.3:
            if group is not None:
                sort = r.choice(["ascend", "descend"])
            elif isinstance(setv, dict):
                sort = r.choice(["ascend", "descend"])
            elif isinstance(setv, list) and sortable(setv):
                sort = r.choice(["ascend", "descend"])
        # representative item for the body's scope
        eff = setv
        if group is not None:
            g = {}
            for rec in setv:
                g.setdefault(group_name(rec[group]), []).append({a: b for a, b in rec.items() if a != group})
            eff = g
        items = list(eff.values()) if isinstance(eff, dict) else (list(eff) if isinstance(eff, list) else [])
        is_obj = isinstance(eff, dict)
        inner_scope = list(scope)
        new_obj_vars = set(objloop_vars)
        if items:
            rep = items[0]
            if all(same_shape(rep, it) for it in items):
                inner_scope = scope + [(name, rep)]
            else:
                inner_scope = scope + [(name, MISSINGSHAPE)]
        if is_obj:
            new_obj_vars.add(name)
        body = self.body(inner_scope, loops + [name], new_obj_vars, depth - 1, must_use=name if items else None, is_obj=is_obj)
        atts = []
        if setp is not None:
            atts.append("set=" + q + setp + q)
        atts.append("value=" + q + name + q)
        if group is not None:
            atts.append("group=" + q + group + q)
        if sort is not None:
            atts.append("sort=" + q + sort + q)
        r.shuffle(atts)
        src = "<loop " + " ".join(atts) + ">" + show(body) + "</loop>"
        if len(src) - len(show(body)) > 190:
            return self.text()
        self.count("loop")
        if group:
            self.count("loop_group")
        if sort:
            self.count("loop_sort")
        if is_obj:
            self.count("loop_over_object")
        return {"k": "loop", "set": setp, "value": name, "group": group, "sort": sort, "body": body, "src": src}

    def body(self, scope, loops, objloop_vars, depth, must_use=None, is_obj=False):
        r = self.r
        scope = [(p, v) for p, v in scope if v is not MISSINGSHAPE] + [(p, v) for p, v in scope if v is MISSINGSHAPE]
        usable = [(p, v) for p, v in scope if v is not MISSINGSHAPE]
        nodes = []
        if must_use is not None:
            nodes.append({"k": "var", "path": must_use, "src": "{var:%s}" % must_use})
        for _ in range(r.randint(1, 4)):
            k = r.random()
            if k < 0.25:
                nodes.append(self.text())
            elif k < 0.5:
                nodes.append(self.var(usable, objloop_vars))
            elif k < 0.6:
                nodes.append(self.math(usable))
            elif k < 0.68:
                nodes.append(self.svar(usable, objloop_vars))
            elif k < 0.78:
                nodes.append(self.iif(usable, objloop_vars))
            elif depth > 0 and k < 0.88:
                nodes.append(self.if_block(usable, loops, objloop_vars, depth))
            elif depth > 0:
                nodes.append(self.loop(usable, loops, objloop_vars, depth))
            else:
                nodes.append(self.text())
            nodes.append(self.text())
        return nodes

    def template(self):
        root = self.root()
        self.loopn = 0
        nodes = self.body([(None, root)], [], set(), self.r.randint(1, 4))
        return root, nodes


MISSINGSHAPE = object()


def same_shape(a, b):
    if isinstance(a, dict):
        return isinstance(b, dict) and list(a) == list(b) and all(same_shape(a[k], b[k]) for k in a)
    if isinstance(a, list):
        return isinstance(b, list) and len(a) == len(b) and all(same_shape(x, y) for x, y in zip(a, b))
    if a is None or isinstance(a, bool):
        return type(a) is type(b)
    if isinstance(a, str):
        return isinstance(b, str) and (X.numeral(a) is X.NOVALUE) == (X.numeral(b) is X.NOVALUE)
    if isinstance(a, int):
        return isinstance(b, int) and not isinstance(b, bool) and (a >= 0) == (b >= 0)
    if isinstance(a, float):
        return isinstance(b, float)
    return False


def sortable(lst):
    if not lst:
        return True
    if all(isinstance(x, int) and not isinstance(x, bool) and x >= 0 for x in lst):
        return True
    if all(isinstance(x, str) for x in lst):
        return True
    return False


def strip_values(e):
    """expression trees are stored without the representative values (they are re-bound per evaluation)"""
    k = e[0]
    if k == "var":
        return ("var", e[1], None)
    if k == "par":
        return ("par", strip_values(e[1]))
    if k == "bin":
        return ("bin", e[1], strip_values(e[2]), strip_values(e[3]))
    return e


def has_risky(e):
    """could this expression have no value for some item? (division, remainder, power, a variable)"""
    k = e[0]
    if k == "var":
        return True
    if k == "par":
        return has_risky(e[1])
    if k == "bin":
        return e[1] in ("/", "%", "^") or has_risky(e[2]) or has_risky(e[3])
    return False
