"""C02: a well-formed template renders to exactly the documented expansion (reference: ref/template_ref.py)."""
import glob
import json
import os
import random
import struct
import sys

import vlib

sys.path.insert(0, os.path.join(vlib.VERIF, "ref"))
import expr as X  # noqa: E402
import template_ref as T  # noqa: E402


def classify(nodes):
    kinds = set()
    flags = set()

    def walk(ns):
        for n in ns:
            kinds.add(n["k"])
            if n["k"] == "loop":
                walk(n["body"])
            elif n["k"] == "if":
                for _, b in n["cases"]:
                    walk(b)
            elif n["k"] in ("iif", "iifs"):
                if n.get("case_not_first"):
                    flags.add("inline-if-case-not-first")
                walk(n["t"])
                walk(n["f"])
            elif n["k"] == "svar":
                walk(n["subs"])
    walk(nodes)
    kinds.discard("text")
    return kinds, flags


def run(tier, seed):
    v = vlib.Verdict("C02", tier, seed)
    wd = vlib.workdir("C02")
    try:
        n = 600000 if tier == "thorough" else 40000
        r = random.Random(seed)
        g = T.Gen(r)
        cases = []
        discarded = 0
        quirk_templates = 0
        casefile = os.path.join(wd, "cases.bin")
        with open(casefile, "wb") as f:
            while len(cases) < n:
                root, nodes = g.template()
                text = T.show(nodes)
                if len(text) > 4000:
                    continue
                try:
                    exp1 = T.render(nodes, T.Env(root, True))
                    exp0 = T.render(nodes, T.Env(root, False))
                    # templates whose output depends on a recorded expression quirk belong to C04, not here
                    X.QUIRKS = {"negpow_sign", "natural_as_signed"}
                    try:
                        alt = T.render(nodes, T.Env(root, True))
                    except Exception:
                        alt = None
                    finally:
                        X.QUIRKS = set()
                    if alt != exp1:
                        quirk_templates += 1
                        continue
                except (X.Overflow, OverflowError, ZeroDivisionError):
                    discarded += 1
                    continue
                if len(exp1) > 200000:
                    continue
                vj = json.dumps(root)
                kk, ff = classify(nodes)
                cases.append((text, vj, exp1, exp0, kk, ff))
                tb, vb = text.encode("latin-1"), vj.encode("latin-1")
                f.write(struct.pack("<I", 2) + struct.pack("<I", len(tb)) + tb + struct.pack("<I", len(vb)) + vb)
        cfgs = [vlib.Config("tmpl2", "asan", "sse2", 1, 1, unit="char"), vlib.Config("tmpl2", "asan", "none", 0, 0, unit="char16_t"),
                vlib.Config("tmpl2", "plain", "avx2", 1, 0, unit="char32_t"), vlib.Config("tmpl2", "plain", "sse2", 0, 0, unit="wchar_t"),
                vlib.Config("tmpl2", "plain", "none", 1, 0, unit="char")]
        bins = vlib.build_all(cfgs)
        byname = {c.name(): c for c in cfgs}
        outs = {}
        plan = []
        # every case is rendered by two different builds (escape on / off alternate)
        for i, cfg in enumerate(cfgs):
            outp = os.path.join(wd, "out%d" % i)
            outs[cfg.name()] = (outp, cfg.esc)
            extra = ["--cases", casefile, "--out", outp]
            lo = (n * i) // len(cfgs)
            hi = (n * (i + 1)) // len(cfgs)
            plan.append((cfg.name(), lo, hi, extra))
            lo2 = (n * ((i + 2) % len(cfgs))) // len(cfgs)
            hi2 = (n * ((i + 2) % len(cfgs) + 1)) // len(cfgs)
            plan.append((cfg.name(), lo2, lo2 + (hi2 - lo2) // 2, extra))
        res = vlib.run_cases(bins, plan, seed, wd)
        v.absorb(res, byname, seed, floor_cases=n)
        compared = 0
        torn = 0
        seen = set()
        kindsets = set()
        samples = []
        tagcount = {}
        for cname, (outp, esc) in outs.items():
            for path in glob.glob(outp + ".*"):
                if True:
                    for line in vlib.complete_lines(path):
                        # a worker that died mid-line leaves a torn record (the death itself is reported by absorb)
                        try:
                            if not line.endswith("\n"):
                                raise ValueError("no end of record")
                            idx, hx = line.split()
                            idx = int(idx)
                            got = "" if hx == "-" else bytes.fromhex(hx).decode("latin-1")
                            text, vj, exp1, exp0, kinds, flags = cases[idx]
                        except (ValueError, IndexError):
                            torn += 1
                            continue
                        exp = exp1 if esc else exp0
                        compared += 1
                        seen.add(text)
                        kindsets.add(frozenset(kinds))
                        if got != exp:
                            # first difference
                            k = 0
                            while k < min(len(got), len(exp)) and got[k] == exp[k]:
                                k += 1
                            key = "c02:output-differs:" + ("+".join(sorted(kinds)) if len(kinds) <= 2 else "mixed")
                            if flags:
                                key = "c02:recorded:" + "+".join(sorted(flags))
                            v.failure(key, {"property": "C02", "seed": seed, "case": idx, "template": text, "value": vj,
                                            "expected": exp[:2000], "got": got[:2000], "config": byname[cname].describe(),
                                            "extra": ["--cases", "<regenerate with the same seed>"]},
                                      "case=%d %s\n    template=%r\n    value=%s\n    expected=%r\n    got     =%r\n    first difference at %d" % (
                                          idx, cname, text[:700], vj[:500], exp[max(0, k - 40):k + 80], got[max(0, k - 40):k + 80], k))
                        elif len(samples) < 5 and idx % 3001 == 5 and len(kinds) >= 2:
                            samples.append({"template": text[:400], "value": vj[:300], "output": got[:200]})
        if torn and not res.deaths:
            v.inconclusive.append("%d torn output records although no worker died" % torn)
        if compared < n and not res.deaths:
            v.inconclusive.append("only %d outputs compared for %d cases" % (compared, n))
        cov = {
            "evaluations": compared,
            "distinct_nontrivial": len(seen),
            "rule": "value tree and template AST are generated together (so paths exist, sets are arrays/objects, grouping "
                    "keys are present): literal text, {var:}/{raw:} with key/index paths (resolved, missing, wrong kind, "
                    "unprintable), {math:} (C04 generator), {svar:} with 0-4 sub-tags and phrases containing {n} holes, "
                    "inline if in any attribute order and either quote (incl. the documented lone-string-variable case), "
                    "<if>/<else if>/<elseif>/<else> chains, <loop set value group sort> over arrays and objects nested <= 4 "
                    "with loop variables used by inner tags, sets and expressions; every case is rendered by two builds "
                    "(char/char16_t/char32_t/wchar_t, scalar/SSE2/AVX2, escape on and off, every 4th through a tag cache "
                    "twice) and compared byte for byte with the reference interpreter. distinct_nontrivial = distinct "
                    "template texts compared",
            "samples": samples,
            "templates": n, "outputs_compared": compared, "distinct_tag_kind_sets": len(kindsets),
            "tags_generated": g.stats, "discarded_overflow": discarded, "discarded_because_output_depends_on_a_recorded_C04_quirk": quirk_templates,
            "per_build_cases": res.per_cfg_cases, "builds": [x.describe() for x in cfgs],
            "cases_not_explored": res.unexplored,
        }
        return v.finish(cov, [
            "not generated because Documentation/Template.md does not fix the behaviour: loop value names that are prefixes "
            "of other identifiers; names > 32 units; loop headers >= 200 units; > 10 svar sub-tags; {var:v[missing]} inside "
            "object loops; an inline-if whose case may have no value together with a false= branch; sort over sets of mixed "
            "kinds; grouping by real or container values; non-ASCII text",
            "the reference interpreter is my reading of the documentation"])
    finally:
        vlib.cleanup(wd)
