"""C19: BigInt vs exact integers. In-process schoolbook reference after every step, the first histories also
replayed offline with python's int (ref/bigint_ref.py); DoubleSize<u8> exhaustively; 16/32/64-bit helpers vs
native wide arithmetic."""
import glob
import os
import sys

import vlib

sys.path.insert(0, os.path.join(vlib.VERIF, "ref"))
import bigint_ref  # noqa: E402


def run(tier, seed):
    v = vlib.Verdict("C19", tier, seed)
    wd = vlib.workdir("C19")
    try:
        n = 3000000 if tier == "thorough" else 150000
        nlog = 100000 if tier == "thorough" else 12000
        cfgs = [vlib.Config("c19", "asan", "sse2", 1, 1), vlib.Config("c19", "plain", "none", 1, 0)]
        bins = vlib.build_all(cfgs)
        byname = {c.name(): c for c in cfgs}
        logp = os.path.join(wd, "oplog")
        h = ["--opt", "mode=hist", "--opt", "log=%d" % nlog, "--out", logp]
        plan = [(cfgs[0].name(), 0, n // 3, h), (cfgs[1].name(), n // 3, n, h),
                (cfgs[0].name(), 0, 256, ["--opt", "mode=ds8"]),
                (cfgs[0].name(), 0, 2000 if tier == "quick" else 40000, ["--opt", "mode=ds64"])]
        res = vlib.run_cases(bins, plan, seed, wd)
        v.absorb(res, byname, seed, floor_cases=n)
        hist, steps, bad = bigint_ref.replay(glob.glob(logp + ".*"))
        for (cur, op, msg) in bad[:50]:
            v.failure("c19:python-replay:%s" % (op[0] if isinstance(op, tuple) else op),
                      {"property": "C19", "seed": seed, "case": cur[0] if cur else -1, "history": str(cur), "op": str(op), "detail": msg,
                       "config": cfgs[0].describe(), "extra": h},
                      "history %s op %s: %s" % (cur, op, msg))
        if hist < min(nlog, n // 3) // 2:
            v.inconclusive.append("python replay saw only %d histories" % hist)
        c = res.counters
        ops = {k[3:]: c[k] for k in c if k.startswith("op_")}
        cov = {
            "evaluations": c.get("steps", 0) + c.get("ds8_multiplications", 0) + c.get("ds8_divisions", 0)
                           + c.get("ds_wide_multiplications", 0) + c.get("ds_wide_divisions", 0),
            "distinct_nontrivial": len(res.distinct),
            "rule": "a history = 10..80 operations (set, += -= with word and u64 operands, *= /= Divide by a word, <<= >>= "
                    "incl. whole-word and >= width counts, |= &= with word and u64 operands, bit scans, all 12 comparison "
                    "forms, narrowing, copy/move, clear) on one of 14 instantiations (8/16/32/64-bit words, 64..2048 bits, "
                    "one non-multiple width); operands biased to 0, 1, all-ones, single bits, top-bit-set, odd/even; steps "
                    "whose exact result would not fit are skipped; after EVERY step words/Index()/predicates are compared "
                    "with an independent reference integer; UBSan bounds watches the fixed storage array. "
                    "distinct_nontrivial = distinct histories + helper cases",
            "samples": res.samples[:6],
            "exhaustive_double_size_u8": c.get("ds8_multiplications", 0) == 65536,
            "steps": c.get("steps", 0), "operations_by_word_size": ops,
            "ds8_multiplications": c.get("ds8_multiplications", 0), "ds8_divisions": c.get("ds8_divisions", 0),
            "wide_helper_multiplications": c.get("ds_wide_multiplications", 0),
            "wide_helper_divisions": c.get("ds_wide_divisions", 0),
            "python_replayed_histories": hist, "python_replayed_steps": steps, "python_replay_disagreements": len(bad),
            "shift_of_zero_by_whole_words": c.get("shift_of_zero_by_whole_words", 0),
            "per_build_cases": res.per_cfg_cases, "builds": [x.describe() for x in cfgs],
            "cases_not_explored": res.unexplored,
        }
        return v.finish(cov, ["bit scans of zero are not generated (no mathematical answer)",
                              "the value of a BigInt is read as words[0..Index()]"])
    finally:
        vlib.cleanup(wd)
