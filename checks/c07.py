"""C07: all-or-nothing parsing. Every proper prefix (same buffer, shorter length), every trailing non-whitespace
suffix and every swapped/removed closing bracket of generated valid container documents must give Undefined."""
import vlib


def run(tier, seed):
    v = vlib.Verdict("C07", tier, seed)
    wd = vlib.workdir("C07")
    try:
        n = 1500000 if tier == "thorough" else 60000
        cfgs = [vlib.Config("json", "asan", "sse2", 1, 1), vlib.Config("json", "plain", "none", 1, 0)]
        bins = vlib.build_all(cfgs)
        byname = {c.name(): c for c in cfgs}
        m = ["--opt", "mode=c07"]
        plan = [(cfgs[0].name(), 0, n // 3, m), (cfgs[1].name(), n // 3, n, m)]
        res = vlib.run_cases(bins, plan, seed, wd)
        v.absorb(res, byname, seed, floor_cases=n)
        c = res.counters
        cov = {
            "evaluations": c.get("c07_prefix_parses", 0) + c.get("c07_suffix_parses", 0) + c.get("c07_bracket_parses", 0) + c.get("c07_blank_parses", 0),
            "distinct_nontrivial": len(res.distinct),
            "rule": "a case = one generated valid container document D without trailing whitespace (first checked to be "
                    "accepted); ALL |D| proper prefixes passed as (D,k) - same buffer, shorter length, so the units after "
                    "the cut are the rest of the valid document; D + each of ] } , : \" 0 a [ { t null 1, a random unit, "
                    "' ,' and newline+]; every structural closing bracket replaced by the other kind and removed; the "
                    "suffix/bracket variants sit in a buffer followed by \"]}]}... and NULs; unit width rotates over "
                    "char/char16_t/char32_t. distinct_nontrivial = distinct documents",
            "samples": res.samples[:6],
            "documents": c.get("c07_documents", 0), "prefix_parses": c.get("c07_prefix_parses", 0),
            "escape_phase_documents": c.get("c07_escape_phase_documents", 0),
            "non_json_blank_parses": c.get("c07_blank_parses", 0),
            "raw_control_in_string_parses": c.get("c07_raw_control_parses", 0),
            "lone_low_surrogate_documents_refused": c.get("c07_lone_low_surrogate_documents_refused", 0),
            "suffix_parses": c.get("c07_suffix_parses", 0), "bracket_parses": c.get("c07_bracket_parses", 0),
            "all_rejected": c.get("rejected", 0), "builds": [x.describe() for x in cfgs],
            "cases_not_explored": res.unexplored,
        }
        return v.finish(cov, ["inputs are invalid by construction (prefix of a container document, trailing "
                              "non-whitespace, mismatched or missing closer)"])
    finally:
        vlib.cleanup(wd)
