"""C08: Stringify(17) -> Parse gives the same defined content, stringify-parse-stringify is a fixed point, and the text
is RFC 8259-conformant (python3's strict json parser accepts it and denotes the same tree)."""
import glob
import json
import os
import re
import struct
import sys
from fractions import Fraction

import vlib

sys.path.insert(0, os.path.join(vlib.VERIF, "gen"))
import jsondocs  # noqa: E402

TOK = re.compile(r"D[0-9a-f]{16}|S[0-9a-f]*|K[0-9a-f]*|U\d+|I-?\d+|[\[\]{}:,TFN?]")


def py_dump(v, out):
    if isinstance(v, tuple) and v[0] == "obj":
        out.append("{")
        for k, x in v[1]:
            out.append("K" + k.encode("utf-8").hex())
            out.append(":")
            py_dump(x, out)
            out.append(",")
        out.append("}")
    elif isinstance(v, list):
        out.append("[")
        for x in v:
            py_dump(x, out)
            out.append(",")
        out.append("]")
    elif isinstance(v, str):
        out.append("S" + v.encode("utf-8").hex())
    elif v is True:
        out.append("T")
    elif v is False:
        out.append("F")
    elif v is None:
        out.append("N")
    elif isinstance(v, jsondocs.Num):
        out.append(("NUM", v.text))
    else:
        raise ValueError(type(v))


def tok_value(t):
    if t[0] == "U" or t[0] == "I":
        return Fraction(int(t[1:]))
    bits = int(t[1:], 16)
    return Fraction(struct.unpack("<d", struct.pack("<Q", bits))[0])


def num_text_value(text):
    if any(c in text for c in ".eE"):
        f = float(text)  # the text printed with 17 digits denotes the double it rounds to
        if f != f or f in (float("inf"), float("-inf")):
            return None  # the text overflows a double: cannot denote the (finite) model number
        return Fraction(f)
    return Fraction(int(text))


def compare(exp, got):
    if len(exp) != len(got):
        return "token count %d (model) vs %d (text)" % (len(exp), len(got))
    for a, b in zip(exp, got):
        if isinstance(b, tuple):
            if a[0] not in "UID":
                return "model %s but the text has number %s" % (a[:40], b[1])
            if tok_value(a) != num_text_value(b[1]):
                return "number: model %s text %s" % (a, b[1])
        elif a != b:
            return "model %s text %s" % (a[:60], b[:60])
    return None


def run(tier, seed):
    v = vlib.Verdict("C08", tier, seed)
    wd = vlib.workdir("C08")
    try:
        n = 600000 if tier == "thorough" else 30000
        cfgs = [vlib.Config("c12", "asan", "sse2", 1, 1, unit="char"), vlib.Config("c12", "asan", "none", 1, 0, unit="char16_t"),
                vlib.Config("c12", "asan", "avx2", 1, 1, unit="char32_t"), vlib.Config("c12", "plain", "none", 1, 0, unit="char")]
        bins = vlib.build_all(cfgs)
        byname = {c.name(): c for c in cfgs}
        outp = os.path.join(wd, "texts")
        e = ["--opt", "c08=1", "--out", outp]
        q = n // 4
        plan = [(cfgs[0].name(), 0, q, e), (cfgs[1].name(), q, 2 * q, e), (cfgs[2].name(), 2 * q, 3 * q, e),
                (cfgs[3].name(), 3 * q, n, e)]
        res = vlib.run_cases(bins, plan, seed, wd)
        v.absorb(res, byname, seed, floor_cases=n)
        checked = 0
        bad = 0
        escapes_needed = 0
        samples = []
        for path in glob.glob(outp + ".*"):
            if True:
                for line in vlib.complete_lines(path):
                    p = line.split()
                    if len(p) != 3:
                        continue
                    try:
                        case, text_hex, dump = int(p[0]), p[1], p[2]
                        raw = bytes.fromhex(text_hex)
                    except ValueError:
                        continue  # torn record of a worker that died (reported by absorb)
                    checked += 1
                    try:
                        text = raw.decode("utf-8")
                        den = json.loads(text, parse_int=jsondocs.Num, parse_float=jsondocs.Num,
                                         object_pairs_hook=jsondocs._pairs, parse_constant=lambda c: (_ for _ in ()).throw(ValueError(c)))
                    except Exception as ex:  # strict parser rejects the text
                        bad += 1
                        v.failure("c08:text-not-rfc8259", {"property": "C08", "seed": seed, "case": case, "text": raw[:600].hex(),
                                                           "error": str(ex)[:200], "config": cfgs[0].describe(), "extra": e},
                                  "case=%d python json rejects: %s text=%r" % (case, str(ex)[:120], raw[:200]))
                        continue
                    got = []
                    py_dump(den, got)
                    msg = compare(TOK.findall(dump), got)
                    if "\\u00" in text:
                        escapes_needed += 1
                    if msg:
                        bad += 1
                        v.failure("c08:text-denotes-different-tree", {"property": "C08", "seed": seed, "case": case, "text": raw[:600].hex(),
                                                                      "mismatch": msg, "config": cfgs[0].describe(), "extra": e},
                                  "case=%d %s text=%r" % (case, msg, raw[:200]))
                    elif len(samples) < 4 and len(raw) > 30 and checked % 211 == 0:
                        samples.append({"case": case, "text": text[:240]})
        c = res.counters
        if checked < 100:
            v.inconclusive.append("python validated only %d texts" % checked)
        cov = {
            "evaluations": c.get("c08_trees", 0),
            "distinct_nontrivial": len(res.distinct),
            "rule": "trees are the states reached by the C12 operation histories (all assignment / subscript / append / merge / "
                    "remove / compress / pointer-to-value operations, so removed members, holes, undefined members and views "
                    "occur at every position; strings over all code units incl. NUL, control characters, quote, backslash, "
                    "slash, non-BMP; numbers incl. 0, -0, 2^53+-1, u64 max, i64 min, subnormals, max double); at random steps "
                    "and at the end every container root is stringified with 17 digits, parsed back from an exact-size buffer "
                    "and compared with the model's defined content, re-stringified (fixed point), and for UTF-8 builds with "
                    "well-formed strings the text is parsed by python3's strict json and compared with the model. "
                    "distinct_nontrivial = distinct histories",
            "samples": samples or res.samples[:3],
            "trees_round_tripped": c.get("c08_trees", 0), "nodes": c.get("c08_nodes", 0),
            "texts_validated_by_python": checked, "texts_containing_u00_escapes": escapes_needed,
            "python_disagreements": bad, "history_steps": c.get("steps", 0),
            "per_build_cases": res.per_cfg_cases, "builds": [x.describe() for x in cfgs],
            "cases_not_explored": res.unexplored,
        }
        return v.finish(cov, ["non-finite doubles are not generated (the statement says finite numbers)",
                              "numbers are compared by mathematical value (5 and 5.0 are equal)",
                              "python validation only for UTF-8 builds and histories whose keys are well-formed UTF-8"])
    finally:
        vlib.cleanup(wd)
