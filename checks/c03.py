"""C03: {var:} output is HTML-safe for every string, {raw:} verbatim, escape-off => verbatim."""
import vlib


def run(tier, seed):
    v = vlib.Verdict("C03", tier, seed)
    wd = vlib.workdir("C03")
    try:
        thorough = tier == "thorough"
        maxlen = 6 if thorough else 5
        blocks = (18 ** (maxlen - 3)) * 4
        nrender = 400000 if thorough else 30000
        cfgs = [vlib.Config("c03", "asan", "sse2", 1, 1), vlib.Config("c03", "asan", "none", 0, 0),
                vlib.Config("c03", "plain", "avx2", 1, 0)]
        bins = vlib.build_all(cfgs)
        byname = {c.name(): c for c in cfgs}
        d = ["--opt", "mode=direct", "--opt", "maxlen=%d" % maxlen]
        r = ["--opt", "mode=render"]
        plan = [(cfgs[0].name() if not thorough else cfgs[2].name(), 0, blocks, d),
                (cfgs[1].name(), 0, 1296 // 4, ["--opt", "mode=direct", "--opt", "maxlen=4"]),
                (cfgs[0].name(), 0, nrender // 2, r), (cfgs[1].name(), nrender // 2, nrender * 3 // 4, r),
                (cfgs[2].name(), nrender * 3 // 4, nrender, r)]
        if thorough:
            plan.append((cfgs[0].name(), 0, 1296, ["--opt", "mode=direct", "--opt", "maxlen=5"]))
        res = vlib.run_cases(bins, plan, seed, wd)
        v.absorb(res, byname, seed, floor_cases=blocks + nrender)
        c = res.counters
        cov = {
            "evaluations": c.get("escaped_strings", 0) + c.get("raw_renders", 0),
            "distinct_nontrivial": len(res.distinct),
            "rule": "direct: ALL strings over the 18-unit alphabet & < > \" ' ; a m p l t g q u o s # x of length 0..%d "
                    "(exhaustive, %d strings per character width) for char/char16_t/char32_t/wchar_t, plus random strings "
                    "over all code units with entity look-alikes and an & forced within 0..6 units of the end, in "
                    "exact-size buffers; oracle = no < > \" ' and no bare &, entity-decoding equal to the source's, "
                    "idempotence. render: payloads (enumerated short strings, then random) through {var:}, {raw:}, "
                    "inline-if true branch, loop item, loop key of an object loop, svar phrase, svar {var:}/{raw:} "
                    "sub-tags and the echoed source of an unresolved {var:...}, with the payload isolated between "
                    "sentinels; escape on and off builds. distinct_nontrivial = exhaustive blocks + distinct payloads"
                    % (maxlen, sum(18 ** i for i in range(maxlen + 1))),
            "samples": res.samples[:6],
            "exhaustive": True,
            "escaped_strings_checked": c.get("escaped_strings", 0), "strings_with_specials": c.get("strings_with_specials", 0),
            "raw_renders": c.get("raw_renders", 0),
            "per_build_cases": res.per_cfg_cases, "builds": [x.describe() for x in cfgs],
            "cases_not_explored": res.unexplored,
        }
        return v.finish(cov, ["an empty loop key and payloads containing { } [ ] are not used for the echo/phrase paths "
                              "(they would change the tag structure, not the escaping)"])
    finally:
        vlib.cleanup(wd)
