"""Shared driver for the Digit-based checks (C09, C10, C11): harness/digit.cpp in several builds."""
import vlib


def run_digit(prop, tier, seed, mode, plain_cases, asan_cases, rule, assumptions, extra_plans=(), floor=100,
              cov_extra=None, opts=()):
    v = vlib.Verdict(prop, tier, seed)
    wd = vlib.workdir(prop)
    try:
        cfgs = [vlib.Config("digit", "plain", "none", 1, 0),
                vlib.Config("digit", "asan", "sse2", 1, 1),
                vlib.Config("digit", "asan", "none", 1, 0)]
        bins = vlib.build_all(cfgs)
        byname = {c.name(): c for c in cfgs}
        extra = ["--opt", "mode=" + mode]
        for o in opts:
            extra += ["--opt", o]
        plan = [(cfgs[0].name(), 0, plain_cases, extra),
                (cfgs[1].name(), plain_cases, plain_cases + asan_cases, extra),
                (cfgs[2].name(), plain_cases + asan_cases, plain_cases + asan_cases + asan_cases // 2, extra)]
        extras = {c.name(): extra for c in cfgs}
        for (cfgi, lo, hi, m) in extra_plans:
            ex = ["--opt", "mode=" + m]
            plan.append((cfgs[cfgi].name(), lo, hi, ex))
        res = vlib.run_cases(bins, plan, seed, wd)
        # extra plans use another mode: their failures must replay with that mode
        v.absorb(res, byname, seed, extras, floor_cases=floor)
        c = res.counters
        cov = {
            "evaluations": 0,
            "distinct_nontrivial": len(res.distinct),
            "rule": rule,
            "samples": res.samples[:8],
            "cases": res.cases,
            "per_build_cases": res.per_cfg_cases,
            "builds": [x.describe() for x in cfgs],
            "cases_not_explored": res.unexplored,
            "counters": {k: c[k] for k in sorted(c) if not k.startswith("ledger")},
        }
        if cov_extra:
            cov_extra(cov, c, res)
        return v.finish(cov, assumptions)
    finally:
        vlib.cleanup(wd)
