"""C10: number -> text against glibc snprintf (%.{p}g / %.{p}f / %.{p}f stripped), integers exact."""
from checks.common_digit import run_digit


def run(tier, seed):
    if tier == "thorough":
        plain, asan = 200000, 10000
        extra = [(0, 0, 65536, "c10f")]
    else:
        plain, asan = 6000, 600
        start = (seed * 104729) % 65400
        extra = [(0, start, start + 128, "c10f")]

    def cov(cv, c, res):
        cv["evaluations"] = c.get("c10_reals", 0) + c.get("c10_ints", 0)
        cv["format_precision_cells_covered"] = len([k for k in c if k.startswith("c10_fmt")])
        cv["int16_blocks_exhaustive_of_256"] = c.get("c10_int16_blocks_exhaustive", 0)
        cv["floats_exhaustive"] = (tier == "thorough")

    return run_digit(
        "C10", tier, seed, "c10", plain, asan,
        "finite doubles/floats from 10 families x precision 0..40 x {Default, Fixed, SemiFixed}, appended to streams "
        "that already hold random content (prefix must survive); +-inf / nan; integers of 8/16/32/64 bits both signs "
        "incl. minima, 8- and 16-bit exhaustively over the first 256 cases; a float sweep over 2^16-blocks for %.6g, "
        "%.9g, %.2f; distinct = distinct (bit pattern, precision, format) triples plus float blocks",
        ["glibc snprintf prints correctly rounded digits of the exact binary value"],
        extra_plans=extra, floor=500, cov_extra=cov)
