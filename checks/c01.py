"""C01: Template rendering of arbitrary text with arbitrary values is memory-safe, terminates, never throws or traps.
Monitors: ASan + UBSan subset, guard pages / exact-size read-only template buffers, exact-fit growth hook, SIGFPE,
exception catch-all, CPU watchdog, allocation ledger."""
import vlib


def run(tier, seed):
    v = vlib.Verdict("C01", tier, seed)
    wd = vlib.workdir("C01")
    try:
        thorough = tier == "thorough"
        n = 400000 if thorough else 24000
        exc = ("-fexceptions",)
        cfgs = [vlib.Config("tmpl", "asan", "sse2", 1, 1, unit="char", extra=exc),
                vlib.Config("tmpl", "asan", "none", 0, 0, unit="char16_t", extra=exc),
                vlib.Config("tmpl", "asan", "avx2", 1, 1, unit="char32_t", extra=exc),
                vlib.Config("tmpl", "asan", "sse2", 1, 0, unit="wchar_t", extra=exc),
                vlib.Config("tmpl", "plain", "none", 1, 0, unit="char", extra=exc)]
        if thorough:
            cfgs += [vlib.Config("tmpl", "asan", "none", 1, 0, unit="char", extra=exc),
                     vlib.Config("tmpl", "asan", "avx2", 0, 1, unit="char16_t", extra=exc)]
        bins = vlib.build_all(cfgs)
        byname = {c.name(): c for c in cfgs}
        m = ["--opt", "mode=c01"]
        nw = ["--opt", "mode=narrow"]
        q = n // 5
        plan = [(cfgs[0].name(), 0, 2 * q, m), (cfgs[1].name(), 2 * q, 3 * q, m), (cfgs[2].name(), 3 * q, 4 * q, m),
                (cfgs[3].name(), 4 * q, n, m),
                (cfgs[0].name(), 0, 200, nw), (cfgs[1].name(), 200, 300, nw), (cfgs[2].name(), 300, 400, nw)]
        if thorough:
            plan += [(cfgs[5].name(), n, n + q, m), (cfgs[6].name(), n + q, n + 2 * q, m)]
        res = vlib.run_cases(bins, plan, seed, wd, cpu=60, timeout_is_violation=True)
        # deepest nesting shapes on the default 8 MiB stack, uninstrumented
        res2 = vlib.run_cases(bins, [(cfgs[4].name(), 0, 400, nw), (cfgs[4].name(), 0, max(2000, n // 10), m)], seed, wd,
                              stack_mb=8, cpu=60, timeout_is_violation=True)
        v.absorb(res, byname, seed, floor_cases=n)
        v.absorb(res2, byname, seed, floor_cases=400)
        fuzz_stats = None
        if thorough:
            seeds = [bytes([i % 4 + 4 * (i % 3)]) + d for i, d in enumerate([
                b'<loop set="list" value="v">{var:v}{math:v+1}</loop>', b'<if case="{var:a} > 3">A<elseif case="b">B<else>C</if>',
                b'{if case="{var:a}==5" true="{var:s}" false="{raw:s}"}', b'{svar:ph, {var:a}, {raw:s}, {math:1+1}}',
                b'<loop set="recs" value="r" group="y" sort="ascend"><loop set="r" value="q">{var:q[m]}</loop></loop>',
                b'{math: (a+b)*c % 2 ^ 2 && 1 || 0 }{var:obj[c][1]}{var:list[3][0]}', b'<loop value="x">{var:x}</loop>',
                b'{var:', b'<if case="', b'</loop></if><else>{math:1/0}{math:1%0}'])]
            fuzz_stats = vlib.fuzz_stage(v, "C01", "fuzz_tmpl", seed, 1500000, 14, 700, seeds, wd, dictionary="tmpl.dict",
                                         extra=("-fexceptions",))
        c = res.counters
        kinds = {k[8:]: c[k] for k in c if k.startswith("tagkind_")}
        cov = {
            "evaluations": c.get("renders", 0) + res2.counters.get("renders", 0),
            "distinct_nontrivial": len(res.distinct | res2.distinct),
            "rule": "a case = one grammar-derived template (every tag kind, nested <= 5, random quoting/attribute order) "
                    "rendered against pool values (objects, arrays, every scalar kind, removed members, holes, "
                    "pointer-to-value members, random trees), then: 40/all of its prefixes, 40 mutations (token "
                    "delete/duplicate/transpose, quote swap, attribute removal, dictionary insertions, splices, random "
                    "bytes, truncation), 10 token soups, 16 hostile seeds (wrong-parent closers, '{math:' followed by "
                    "'<else', % 0, unterminated attributes) alone and appended to a prefix; narrow-field family: names of "
                    "254..512 units, loop headers beyond unit 255, bodies of 65,534..70,000 units, 9-13 svar sub-tags, "
                    "nesting 255..257; templates sit in exact-size heap blocks or against PROT_NONE pages (read-only); every "
                    "fourth render goes twice through a tag cache. distinct_nontrivial = distinct parse shapes (sequence of "
                    "top-level tag kinds and count) plus distinct tag-free texts containing { or <",
            "samples": (res.samples + res2.samples)[:8],
            "renders": c.get("renders", 0), "renders_with_tags": c.get("renders_with_tags", 0),
            "wellformed_templates": c.get("wellformed_templates", 0), "prefix_renders": c.get("prefix_renders", 0),
            "mutation_renders": c.get("mutation_renders", 0), "soup_renders": c.get("soup_renders", 0),
            "seed_renders": c.get("seed_renders", 0), "narrow_templates": c.get("narrow_templates", 0),
            "tag_kinds_reached": kinds, "output_units": c.get("output_units", 0),
            "ledger_events": c.get("ledger_allocs", 0) + c.get("ledger_frees", 0),
            "per_build_cases": {**res.per_cfg_cases, **{k + "(8MiB stack)": x for k, x in res2.per_cfg_cases.items()}},
            "builds": [x.describe() for x in cfgs], "cases_not_explored": res.unexplored + res2.unexplored,
            "libfuzzer_stage": fuzz_stats if fuzz_stats else "thorough tier only",
        }
        return v.finish(cov, ["template length <= 4 KiB except the narrow-field family", "allocation failure is not injected",
                              "arithmetic overflow inside {math:} is not a trap and is not flagged",
                              "a CPU-watchdog expiry (60 s of process CPU for the ~110 renders of one case) counts as non-termination"])
    finally:
        vlib.cleanup(wd)
