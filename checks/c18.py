"""C18: Value::GroupBy and <loop group=> vs a reference partition computed on the document model."""
import vlib


def run(tier, seed):
    v = vlib.Verdict("C18", tier, seed)
    wd = vlib.workdir("C18")
    try:
        n = 3000000 if tier == "thorough" else 120000
        cfgs = [vlib.Config("c18", "asan", "sse2", 1, 1), vlib.Config("c18", "asan", "none", 0, 0),
                vlib.Config("c18", "plain", "avx2", 1, 0)]
        bins = vlib.build_all(cfgs)
        byname = {c.name(): c for c in cfgs}
        q = n // 4
        plan = [(cfgs[0].name(), 0, q, []), (cfgs[1].name(), q, 2 * q, []), (cfgs[2].name(), 2 * q, n, [])]
        res = vlib.run_cases(bins, plan, seed, wd)
        v.absorb(res, byname, seed, floor_cases=n)
        c = res.counters
        cov = {
            "evaluations": c.get("arrays", 0),
            "distinct_nontrivial": len(res.distinct),
            "rule": "arrays of 0..12 objects; the grouping key sits at a random member position in every record; key values "
                    "are strings, unsigned, signed, booleans/null, doubles with <= 2 decimals or mixed; 1..6 distinct groups; "
                    "other members are scalars (even cases) or arbitrary trees (odd cases); one record in four has a removed "
                    "member before or after the key; the GroupBy result is compared node by node with the reference partition "
                    "(group order of first appearance, record order, key dropped, members unchanged), the source array must be "
                    "unchanged, and for scalar members <loop group=> must print the same partition. "
                    "distinct_nontrivial = distinct key-position vectors",
            "samples": res.samples[:6],
            "arrays": c.get("arrays", 0), "records": c.get("records", 0), "groups": c.get("groups", 0),
            "records_with_removed_member": c.get("records_with_removed_member", 0),
            "arrays_with_varying_key_position": c.get("arrays_with_varying_key_position", 0),
            "loop_group_renders": c.get("loop_group_renders", 0), "nodes_compared": c.get("nodes_compared", 0),
            "per_build_cases": res.per_cfg_cases, "builds": [x.describe() for x in cfgs],
            "cases_not_explored": res.unexplored,
        }
        return v.finish(cov, ["every record contains the grouping key (the quantifier says so)",
                              "the textual value of a real is %.15g (the library's default format, checked by C10)"])
    finally:
        vlib.cleanup(wd)
