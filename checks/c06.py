"""C06: every generated RFC 8259 document parses to the value python3's json says it denotes (UTF-8/16/32)."""
import glob
import os
import re
import struct
import sys

import vlib

sys.path.insert(0, os.path.join(vlib.VERIF, "gen"))
import jsondocs  # noqa: E402

TOK = re.compile(r"D[0-9a-f]{16}|S[0-9a-f]*|K[0-9a-f]*|U\d+|I-?\d+|[\[\]{}:,TFN?]")


def hexunits(s, enc):
    if enc == "utf8":
        return s.encode("utf-8").hex()
    if enc == "utf16":
        b = s.encode("utf-16-le")
        return "".join("%04x" % struct.unpack_from("<H", b, i)[0] for i in range(0, len(b), 2))
    b = s.encode("utf-32-le")
    return "".join("%08x" % struct.unpack_from("<I", b, i)[0] for i in range(0, len(b), 4))


def expected_dump(v, enc, out):
    if isinstance(v, tuple) and v[0] == "obj":
        out.append("{")
        for k, x in v[1]:
            out.append("K" + hexunits(k, enc))
            out.append(":")
            expected_dump(x, enc, out)
            out.append(",")
        out.append("}")
    elif isinstance(v, list):
        out.append("[")
        for x in v:
            expected_dump(x, enc, out)
            out.append(",")
        out.append("]")
    elif isinstance(v, str):
        out.append("S" + hexunits(v, enc))
    elif v is True:
        out.append("T")
    elif v is False:
        out.append("F")
    elif v is None:
        out.append("N")
    elif isinstance(v, jsondocs.Num):
        k, x = jsondocs.expected_number(v.text)
        out.append({"U": "U%d", "I": "I%d", "D": "D%016x"}[k] % x)
    else:
        raise ValueError(type(v))


def ulp_key(bits):
    return -(bits & 0x7FFFFFFFFFFFFFFF) if bits >> 63 else bits


def compare(exp, got):
    """token lists; doubles within one unit in the last place. Returns None or a mismatch description."""
    if len(exp) != len(got):
        return "token count %d vs %d" % (len(exp), len(got))
    for i, (a, b) in enumerate(zip(exp, got)):
        if a == b:
            continue
        if a[0] == "D" and b[0] == "D":
            if abs(ulp_key(int(a[1:], 16)) - ulp_key(int(b[1:], 16))) <= 1:
                continue
            return "number: expected %s got %s" % (a, b)
        if a[0] in "UID" and b[0] in "UID":
            return "number kind/value: expected %s got %s" % (a, b)
        return "token %d: expected %s got %s" % (i, a[:80], b[:80])
    return None


def classify(msg, text):
    if msg.startswith("number kind"):
        return "c06:number-kind-or-value"
    if msg.startswith("number:"):
        return "c06:number-more-than-1ulp"
    if "expected S" in msg or "expected K" in msg:
        return "c06:string-content"
    return "c06:structure"


def run(tier, seed):
    v = vlib.Verdict("C06", tier, seed)
    wd = vlib.workdir("C06")
    try:
        n = 400000 if tier == "thorough" else 24000
        g = jsondocs.Gen(seed)
        docs = []
        casefile = os.path.join(wd, "cases.bin")
        with open(casefile, "wb") as f:
            for _ in range(n):
                t = g.doc()
                docs.append(t)
                fields = [t.encode("utf-8"), t.encode("utf-16-le"), t.encode("utf-32-le")]
                f.write(struct.pack("<I", 3))
                for b in fields:
                    f.write(struct.pack("<I", len(b)))
                    f.write(b)
        cfgs = [vlib.Config("json", "asan", "sse2", 1, 1), vlib.Config("json", "asan", "none", 1, 0),
                vlib.Config("json", "plain", "avx2", 1, 0)]
        bins = vlib.build_all(cfgs)
        byname = {c.name(): c for c in cfgs}
        outp = os.path.join(wd, "out")
        extra = ["--opt", "mode=c06", "--cases", casefile, "--out", outp]
        a, b = n // 3, 2 * n // 3
        plan = [(cfgs[0].name(), 0, a, extra), (cfgs[1].name(), a, b, extra), (cfgs[2].name(), b, n, extra)]
        res = vlib.run_cases(bins, plan, seed, wd)
        v.absorb(res, byname, seed, floor_cases=n)
        compared = 0
        mism = 0
        distinct = set()
        samples = []
        seen = [0] * n
        for path in glob.glob(outp + ".*"):
            if True:
                for line in vlib.complete_lines(path):
                    parts = line.rstrip("\n").split(" ", 3)
                    if len(parts) < 4:
                        continue
                    try:
                        c, enc, variant, d = int(parts[0]), parts[1], parts[2], parts[3]
                    except ValueError:
                        continue  # torn record of a worker that died (reported by absorb)
                    text = docs[c]
                    exp = []
                    expected_dump(jsondocs.denote(text), "utf32" if enc == "utf32w" else enc, exp)
                    got = TOK.findall(d)
                    compared += 1
                    seen[c] += 1
                    distinct.add(text)
                    msg = compare(exp, got)
                    if msg is not None:
                        mism += 1
                        key = classify(msg, text) + (":" + variant if variant != "fresh" else "")
                        v.failure(key, {"property": "C06", "seed": seed, "case": c, "encoding": enc, "variant": variant,
                                        "document": text, "mismatch": msg, "dump": d[:2000]},
                                  "case=%d %s/%s %s doc=%r" % (c, enc, variant, msg, text[:300]))
                    elif len(samples) < 5 and c % 997 == 0 and variant == "fresh" and enc == "utf16":
                        samples.append({"document": text[:300], "encoding": enc, "dump": d[:300]})
        missing = sum(1 for x in seen if x == 0)
        if missing and not res.deaths:
            v.inconclusive.append("%d documents have no dump line" % missing)
        st = g.stats
        cov = {
            "evaluations": compared,
            "distinct_nontrivial": len(distinct),
            "rule": "documents from a python generator of the RFC 8259 grammar (four whitespace characters in every legal "
                    "position, all escape forms in both hex cases, surrogate pairs for all planes, raw multi-byte "
                    "characters, integer/fraction/exponent numerals incl. 2^53/2^63/2^64 boundaries, duplicate keys, "
                    "nesting to 64, empty containers); each is parsed in UTF-8, UTF-16, UTF-32 (and wchar_t) both with a "
                    "fresh parser and through the scratch-stream overload whose stream is reused across documents "
                    "(1 in 4 directly after a rejected document); the canonical dump is compared with python3 json's "
                    "denotation (integers exact, other numbers within 1 ulp, strings unit for unit). "
                    "distinct_nontrivial = distinct document texts compared",
            "samples": samples or [{"document": docs[0][:300]}],
            "documents": n, "dumps_compared": compared, "mismatches": mism,
            "escape_forms": st["escapes"], "planes_covered": sorted(st["planes"]), "numerals": st["numerals"],
            "duplicate_key_documents": st["dup_docs"], "max_depth": st["max_depth"],
            "rejected_documents_fed_to_shared_stream": res.counters.get("c06_rejected_before", 0),
            "builds": [x.describe() for x in cfgs], "cases_not_explored": res.unexplored,
        }
        return v.finish(cov, ["python3 json (strict) defines the denotation; float(text) is correctly rounded",
                              "lone surrogates and out-of-range numerals are not generated"])
    finally:
        vlib.cleanup(wd)
