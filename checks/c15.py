"""C15: order axioms on strings (exhaustive small universe) and values; every Sort returns an ordered permutation."""
import vlib


def run(tier, seed):
    v = vlib.Verdict("C15", tier, seed)
    wd = vlib.workdir("C15")
    try:
        cfgs = [vlib.Config("c15", "asan", "sse2", 1, 1), vlib.Config("c15", "plain", "none", 1, 0)]
        bins = vlib.build_all(cfgs)
        byname = {c.name(): c for c in cfgs}
        nsort = 400000 if tier == "thorough" else 30000
        nrand = 20000 if tier == "thorough" else 1200
        S, V, T = ["--opt", "mode=strings"], ["--opt", "mode=values"], ["--opt", "mode=sorts"]
        plan = [(cfgs[0].name(), 0, 121, S), (cfgs[1].name(), 121, 121 + nrand, S),
                (cfgs[0].name(), 0, 50, V),
                (cfgs[0].name(), 0, nsort // 3, T), (cfgs[1].name(), nsort // 3, nsort, T)]
        res = vlib.run_cases(bins, plan, seed, wd)
        v.absorb(res, byname, seed, floor_cases=121 + 50 + nsort)
        c = res.counters
        cov = {
            "evaluations": c.get("string_pair_operator_sets", 0) + c.get("string_triples", 0) + c.get("value_pairs", 0)
                           + c.get("value_triples", 0) + c.get("sorts", 0),
            "distinct_nontrivial": len(res.distinct),
            "rule": "strings: ALL 121 strings over a 3-unit alphabet with length <= 4 (includes the empty string and every "
                    "proper prefix): all 14,641 ordered pairs x 6 operators x String/StringView/literal overloads x 3 widths "
                    "and all 1.77 M triples for transitivity (exhaustive), plus random strings up to 40 units; values: all "
                    "pairs and triples of a 50-value pool of every kind (finite numbers); sorts: ALL arrays over a "
                    "4-string universe up to length 6 (5461, exhaustive) then random arrays, each through Array<String>, "
                    "Array<int>, HArray keys with a removed member, Value array, Value object keys and <loop sort=>, "
                    "ascending and descending, with lookups afterwards. distinct = distinct left operands / arrays",
            "samples": res.samples[:8],
            "exhaustive": True,
            "string_pair_operator_sets": c.get("string_pair_operator_sets", 0), "string_triples": c.get("string_triples", 0),
            "value_pairs": c.get("value_pairs", 0), "value_triples": c.get("value_triples", 0),
            "sorts": c.get("sorts", 0), "loop_sorts": c.get("loop_sorts", 0),
            "per_build_cases": res.per_cfg_cases, "builds": [x.describe() for x in cfgs],
            "cases_not_explored": res.unexplored,
        }
        return v.finish(cov, ["code units are compared as values of the character type (char is signed here)",
                              "NaN is excluded; containers compare by size as the code documents (only the axioms are checked)"])
    finally:
        vlib.cleanup(wd)
