"""C04: expression evaluation equals exact arithmetic with the documented precedence (reference: ref/expr.py)."""
import glob
import json
import math
import os
import random
import struct
import sys

import vlib

sys.path.insert(0, os.path.join(vlib.VERIF, "ref"))
import expr as X  # noqa: E402

X.ALLOW_REAL_ZERO = True  # values are compared here (either print of a zero is accepted); a zero divisor of either sign gives no value

NAMES = {
    "u5": 5, "u0": 0, "u12": 12, "big": 4000000000, "i3": -3, "i1": -1, "r25": 2.5, "r05": 0.5, "rneg": -1.25, "r100": 100.0,
    "s12": "12", "sneg": "-7", "s25": "2.5", "txt": "abc", "empty": "", "bt": True, "bf": False, "nul": None, "strue": "true",
    # strings that only START with a numeral (a unit, a date, trailing blank, second point): not numbers
    "px": "12px", "date": "2021-05-01", "pct": "3.5%", "sp": "7 ", "dots": "1.2.3", "ex": "1e", "lead": " 4",
}


def value_json():
    return json.dumps(NAMES)


def fmt_real(x):
    s = "%.2f" % x
    if "." in s:
        s = s.rstrip("0").rstrip(".")
    return s


def ulps(a, b):
    def key(x):
        bits = struct.unpack("<q", struct.pack("<d", x))[0]
        return bits if bits >= 0 else -(bits & 0x7FFFFFFFFFFFFFFF)
    return abs(key(a) - key(b))


def gen_cases(seed, n):
    r = random.Random(seed)
    g = X.ExprGen(r, NAMES)
    cases = []
    skipped = 0
    while len(cases) < n:
        depth = r.choice([1, 2, 2, 3, 3, 4, 5, 6])
        e = g.whole(depth)
        e0 = X.strip_par(e)
        if e0[0] in ("var", "text") and (e0[0] == "text" or X.to_number(e0[2]) is X.NOVALUE):
            continue  # a lone non-numeric variable: documented only for case=, covered by C02
        try:
            X.MAXMAG[0] = 0.0
            v = X.evaluate(e)
            real = (v is not X.NOVALUE) and X.is_real_class(e)
        except X.Overflow:
            skipped += 1
            continue
        except (OverflowError, ZeroDivisionError):
            skipped += 1
            continue
        cases.append((X.show(e, r), v, real, e, X.MAXMAG[0]))
    return cases, skipped, g.pairs


def run(tier, seed):
    v = vlib.Verdict("C04", tier, seed)
    wd = vlib.workdir("C04")
    try:
        n = 2000000 if tier == "thorough" else 150000
        cases, skipped, pairs = gen_cases(seed, n)
        casefile = os.path.join(wd, "cases.bin")
        vj = value_json().encode()
        with open(casefile, "wb") as f:
            for text, _, _, _, _ in cases:
                t = text.encode()
                f.write(struct.pack("<I", 2) + struct.pack("<I", len(t)) + t + struct.pack("<I", len(vj)) + vj)
        cfgs = [vlib.Config("expr", "asan", "sse2", 1, 1, unit="char"), vlib.Config("expr", "asan", "none", 0, 0, unit="char16_t"),
                vlib.Config("expr", "plain", "avx2", 1, 0, unit="char32_t")]
        bins = vlib.build_all(cfgs)
        byname = {c.name(): c for c in cfgs}
        outp = os.path.join(wd, "out")
        extra = ["--cases", casefile, "--out", outp]
        a, b = n // 4, n // 2
        plan = [(cfgs[0].name(), 0, a, extra), (cfgs[1].name(), a, b, extra), (cfgs[2].name(), b, n, extra)]
        res = vlib.run_cases(bins, plan, seed, wd)
        v.absorb(res, byname, seed, floor_cases=n)
        compared = 0
        novalue = 0
        kinds = {}
        seen = set()
        samples = []
        for path in glob.glob(outp + ".*"):
            if True:
                for line in vlib.complete_lines(path):
                    try:
                        head, m_hex, i1_hex, i2_hex = [x.strip() for x in line.split("|")]
                        idx, kind, val = head.split()
                        idx = int(idx)
                        text, exp, real, e, maxmag = cases[idx]
                        m_out = "" if m_hex == "-" else bytes.fromhex(m_hex).decode("latin-1")
                        i1 = "" if i1_hex == "-" else bytes.fromhex(i1_hex).decode("latin-1")
                        i2 = "" if i2_hex == "-" else bytes.fromhex(i2_hex).decode("latin-1")
                    except (ValueError, IndexError):
                        continue  # torn record of a worker that died (reported by absorb)
                    compared += 1
                    seen.add(text)
                    top = X.strip_par(e)
                    opk = top[1] if top[0] == "bin" else top[0]
                    key = None
                    msg = None
                    if exp is X.NOVALUE:
                        novalue += 1
                        if kind != "novalue":
                            key, msg = "c04:value-where-none-is-defined:" + opk, "engine gives %s %s" % (kind, val)
                        elif m_out != "{math:" + text + "}":
                            key, msg = "c04:math-not-echoed", "math output %r" % m_out
                        elif i1 not in ("F", "") or i2 != "N":
                            key, msg = "c04:condition-satisfied-without-value", "inline-if %r if %r" % (i1, i2)
                    else:
                        if kind == "novalue":
                            key, msg = "c04:no-value:" + opk, "expected %r" % (exp,)
                        elif real:
                            if kind != "real":
                                key, msg = "c04:kind:" + opk, "expected real %r got %s %s" % (exp, kind, val)
                            else:
                                got = struct.unpack("<d", struct.pack("<Q", int(val, 16)))[0]
                                # the engine may associate a+b-c or a*b/c differently without changing the mathematical
                                # value: allow the rounding noise of the largest intermediate magnitude
                                if ulps(got, float(exp)) > 4 and abs(got - float(exp)) > 8 * 2.3e-16 * max(maxmag, abs(float(exp))):
                                    key, msg = "c04:real-value:" + opk, "expected %r got %r" % (float(exp), got)
                                elif m_out not in (fmt_real(float(exp)), fmt_real(got)):  # the text must be the print of the value
                                    key, msg = "c04:math-text", "expected %s got %r" % (fmt_real(got), m_out)
                                else:
                                    sat = got > 0
                                    if i1 != ("T" if sat else "F") or i2 != ("Y" if sat else "N"):
                                        key, msg = "c04:condition", "value %r inline-if %r if %r" % (got, i1, i2)
                        else:
                            if kind == "real":
                                key, msg = "c04:kind:" + opk, "expected integer %r got real %s" % (exp, val)
                            elif int(val) != int(exp):
                                key, msg = "c04:integer-value:" + opk, "expected %r got %s %s" % (exp, kind, val)
                            elif m_out != str(int(exp)):
                                key, msg = "c04:math-text", "expected %s got %r" % (int(exp), m_out)
                            else:
                                sat = exp > 0
                                if i1 != ("T" if sat else "F") or i2 != ("Y" if sat else "N"):
                                    key, msg = "c04:condition", "value %r inline-if %r if %r" % (exp, i1, i2)
                        kinds[kind] = kinds.get(kind, 0) + 1
                    if key:
                        # does one of the recorded engine quirks explain exactly this result?
                        for quirk in (("negpow_sign",), ("natural_as_signed",), ("negpow_sign", "natural_as_signed")):
                            X.QUIRKS = set(quirk)
                            X.QUIRK_HIT = set()
                            X.MAXMAG[0] = 0.0
                            try:
                                alt = X.evaluate(e)
                            except Exception:
                                alt = None
                            hit = set(X.QUIRK_HIT)
                            X.QUIRKS = set()
                            if alt is None or not hit:
                                continue
                            if alt is X.NOVALUE or kind == "novalue":
                                same = (alt is X.NOVALUE) and (kind == "novalue")
                            elif kind == "real":
                                got = struct.unpack("<d", struct.pack("<Q", int(val, 16)))[0]
                                # same tolerance as the main comparison (association of a+b-c around the quirk's value)
                                same = isinstance(alt, float) and (ulps(got, alt) <= 4 or
                                                                   abs(got - alt) <= 8 * 2.3e-16 * max(X.MAXMAG[0], abs(alt)))
                            else:
                                same = (not isinstance(alt, float)) and int(val) == int(alt)
                            if same:
                                key = "c04:recorded:" + "+".join(sorted(hit))
                                break
                        v.failure(key, {"property": "C04", "seed": seed, "case": idx, "expression": text, "value": NAMES,
                                        "detail": msg, "config": cfgs[0].describe(), "extra": extra},
                                  "case=%d expr=%s : %s" % (idx, text, msg))
                    elif len(samples) < 6 and idx % 4001 == 7:
                        samples.append({"expression": text, "expected": "no value" if exp is X.NOVALUE else exp, "engine": kind + " " + val})
        if compared < n // 2 and not res.deaths:
            v.inconclusive.append("only %d of %d expressions produced an output line" % (compared, n))
        cov = {
            "evaluations": compared,
            "distinct_nontrivial": len(seen),
            "rule": "random expression trees (depth 1..6) over the 16 documented operators, printed with random spacing and "
                    "redundant parentheses; operands: integer / negative / decimal / exponent-form literals and {var:} of "
                    "every kind (unsigned, signed, real, numeric strings, booleans, null, text, missing); == / != also "
                    "between texts and text variables; parentheses are inserted wherever the documentation leaves the "
                    "grouping of same-level operators open; cases whose exact values leave [-2^63, 2^64) are discarded; each "
                    "expression is observed through ParseExpressions+Evaluate (kind and value, integers exact, reals within "
                    "4 ulp) and through {math:}, {if case=} and <if case=> renderings. distinct_nontrivial = distinct "
                    "expression texts compared",
            "samples": samples,
            "expressions": compared, "no_value_cases": novalue, "result_kinds": kinds,
            "skipped_overflow": skipped, "operator_adjacency_pairs_seen": len(pairs),
            "per_build_cases": res.per_cfg_cases, "builds": [x.describe() for x in cfgs],
            "cases_not_explored": res.unexplored,
        }
        return v.finish(cov, [
            "not generated (the documentation does not fix them): non-integral real bases/exponents of magnitude >= 1, a "
            "negative literal directly before ^, negation of a parenthesis, 0^0 and 0^negative, bitwise operators on "
            "negative or real operands, a lone non-numeric or missing variable as the whole expression, a parenthesised "
            "lone non-numeric variable",
            "natural and integer results are one class (the value must be exact); real is the other class"])
    finally:
        vlib.cleanup(wd)
