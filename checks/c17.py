"""C17: rendering is pure; cached, repeated and concurrent renders are identical and race-free.
Monitors: ThreadSanitizer (happens-before race detection), byte comparison with a fresh single render, template text in
a read-only mapping, value Stringify before/after; an ASan build repeats the sequential reuse sequences."""
import vlib


def run(tier, seed):
    v = vlib.Verdict("C17", tier, seed)
    wd = vlib.workdir("C17")
    try:
        thorough = tier == "thorough"
        n = 6000 if thorough else 240
        cfgs = [vlib.Config("c17", "tsan", "sse2", 1, 0, unit="char"), vlib.Config("c17", "tsan", "none", 0, 1, unit="char16_t"),
                vlib.Config("c17", "asan", "avx2", 1, 1, unit="char")]
        bins = vlib.build_all(cfgs)
        byname = {c.name(): c for c in cfgs}
        a = n * 2 // 3
        plan = [(cfgs[0].name(), 0, a, []), (cfgs[1].name(), a, n, []),
                (cfgs[2].name(), n, n + n // 2, ["--opt", "threads=4"])]
        res = vlib.run_cases(bins, plan, seed, wd, cpu=3000)
        v.absorb(res, byname, seed, floor_cases=n)
        c = res.counters
        kinds = {k[8:]: c[k] for k in c if k.startswith("tagkind_")}
        threads = {k[8:]: c[k] for k in c if k.startswith("threads_")}
        if c.get("overlapping_renders", 0) < c.get("concurrent_renders", 0) // 10:
            v.inconclusive.append("too few renders overlapped another thread's (%d of %d)" % (c.get("overlapping_renders", 0), c.get("concurrent_renders", 0)))
        cov = {
            "evaluations": c.get("concurrent_renders", 0) + c.get("sequential_renders", 0),
            "distinct_nontrivial": len(res.distinct),
            "rule": "a case = one generated template (every tag kind incl. sort= and group=, one in six mutated), parsed ONCE "
                    "into a shared const tag array before the threads start; 2/4/8/16 threads released together render it "
                    "20..120 times each through their own TemplateCore and stream, with one shared value or per-thread values; "
                    "every output is compared with the fresh single-threaded render; then the value's Stringify, the template "
                    "bytes (kept in a read-only mapping) and a render through the same cache are compared with before; "
                    "sequential reuse: the cache and a copy of it rendered with different values into streams holding earlier "
                    "content, and one TemplateCore reused for two values. ThreadSanitizer builds (halt_on_error). "
                    "distinct_nontrivial = distinct templates that parse to at least one tag",
            "samples": res.samples[:6],
            "templates": c.get("templates", 0), "concurrent_renders": c.get("concurrent_renders", 0),
            "renders_that_overlapped_another_thread": c.get("overlapping_renders", 0),
            "sequential_renders": c.get("sequential_renders", 0), "thread_counts": threads, "tag_kinds_in_shared_caches": kinds,
            "tsan_reports": len([d for d in res.deaths if d.sig.startswith("tsan")]),
            "per_build_cases": res.per_cfg_cases, "builds": [x.describe() for x in cfgs],
            "cases_not_explored": res.unexplored,
        }
        return v.finish(cov, ["parsing into the shared cache happens before the threads start (as the documentation prescribes)",
                              "TSan reports races in the executions it sees (happens-before), not in all interleavings"])
    finally:
        vlib.cleanup(wd)
