"""C13: HArray / HList vs an insertion-ordered map model after every step (adversarial key pools)."""
import vlib


def run(tier, seed):
    v = vlib.Verdict("C13", tier, seed)
    wd = vlib.workdir("C13")
    try:
        n = 1500000 if tier == "thorough" else 60000
        cfgs = [vlib.Config("c13", "asan", "sse2", 1, 1), vlib.Config("c13", "asan", "none", 1, 0),
                vlib.Config("c13", "plain", "avx2", 1, 0)]
        bins = vlib.build_all(cfgs)
        byname = {c.name(): c for c in cfgs}
        a = n // 4
        mc = 4000 if tier == "thorough" else 320
        plan = [(cfgs[0].name(), 0, a, []), (cfgs[1].name(), a, 2 * a, []), (cfgs[2].name(), 2 * a, n, []),
                (cfgs[2].name(), n, n + mc, [], vlib.MEMCHECK)]
        res = vlib.run_cases(bins, plan, seed, wd)
        v.absorb(res, byname, seed, floor_cases=n)
        c = res.counters
        ops = {k[3:]: c[k] for k in c if k.startswith("op_")}
        cov = {
            "evaluations": c.get("steps", 0),
            "distinct_nontrivial": len(res.distinct),
            "rule": "a history = 10..90 operations over 3 tables of one kind (HArray<String,String>, HArray<String,int>, "
                    "HArray<String,Array<String>>, HList<String>) with keys from one of five pools (tiny alphabet incl. "
                    "the empty key and proper prefixes; full 32-bit hash collisions ax/bx/cx...; embedded NULs; random "
                    "bytes; 70 keys to cross several capacities); after EVERY step: iteration order, ActualSize, and for "
                    "every key of the pool Has/GetValue/GetItem/GetKeyIndex->GetKey agreement with an ordered-map model. "
                    "distinct_nontrivial = distinct histories",
            "samples": res.samples[:8],
            "steps": c.get("steps", 0), "lookups_compared": c.get("lookups", 0), "max_table_size": c.get("max_size", 0),
            "distinct_type_operation_pairs": len(ops), "operations": ops,
            "ledger_events": c.get("ledger_allocs", 0) + c.get("ledger_frees", 0),
            "per_build_cases": res.per_cfg_cases, "builds": [x.describe() for x in cfgs],
            "histories_under_memcheck": mc,
            "cases_not_explored": res.unexplored,
        }
        return v.finish(cov, ["slot numbers are never compared with the model, only key<->index consistency",
                              "Resize(n) is generated only when the table holds no removed entries and n >= its size, or n = 0",
                              "sorted order is compared with lexicographic order of the code units as values of the character type",
                              "self-merge is not generated"])
    finally:
        vlib.cleanup(wd)
