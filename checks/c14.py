"""C14: Array / String / StringStream / StringView vs std models after every step; Memory::Copy/SetToZero sweep."""
import vlib


def run(tier, seed):
    v = vlib.Verdict("C14", tier, seed)
    wd = vlib.workdir("C14")
    try:
        n = 2000000 if tier == "thorough" else 90000
        cfgs = [vlib.Config("c14", "asan", "sse2", 1, 1), vlib.Config("c14", "asan", "none", 1, 0),
                vlib.Config("c14", "asan", "avx2", 1, 1), vlib.Config("c14", "plain", "sse2", 1, 0),
                vlib.Config("c14", "plain", "avx2", 1, 0), vlib.Config("c14", "plain", "none", 1, 0)]
        bins = vlib.build_all(cfgs)
        byname = {c.name(): c for c in cfgs}
        h = ["--opt", "mode=hist"]
        cp = ["--opt", "mode=copy"]
        third = n // 3
        plan = [(cfgs[0].name(), 0, third, h), (cfgs[1].name(), third, 2 * third, h), (cfgs[2].name(), 2 * third, n, h)]
        # copy sweep: all lengths 0..4096 in the three plain SIMD builds; lengths 0..600 (thorough: all) under ASan
        top = 4097
        atop = 4097 if tier == "thorough" else 600
        plan += [(cfgs[3].name(), 0, top, cp), (cfgs[4].name(), 0, top, cp), (cfgs[5].name(), 0, top, cp),
                 (cfgs[0].name(), 0, atop, cp), (cfgs[2].name(), 0, atop, cp), (cfgs[1].name(), 0, atop, cp)]
        mc = 6000 if tier == "thorough" else 480
        plan += [(cfgs[3].name(), n, n + mc, h, vlib.MEMCHECK), (cfgs[4].name(), 0, 130, cp, vlib.MEMCHECK)]
        res = vlib.run_cases(bins, plan, seed, wd)
        v.absorb(res, byname, seed, floor_cases=n)
        c = res.counters
        ops = {k[3:]: c[k] for k in c if k.startswith("op_")}
        cov = {
            "evaluations": c.get("steps", 0) + c.get("copies", 0) + c.get("zero_fills", 0),
            "distinct_nontrivial": len(res.distinct),
            "rule": "a history = 10..70 random operations over 3 aliased variables of one family (Array<int>, "
                    "Array<String>, Array<Array<int>>, String/StringStream for char/char16_t/char32_t; StringView inside "
                    "the String histories); after EVERY step all variables are compared with std::vector / "
                    "std::basic_string models (size, every element, NUL terminator, capacity >= size, accessors); "
                    "self-append / self-assign included; the copy sweep does every length 0..4096 x 32 x 32 "
                    "misalignments with canaries. distinct_nontrivial = distinct histories + distinct copy lengths",
            "samples": res.samples[:8],
            "history_steps": c.get("steps", 0), "copies": c.get("copies", 0), "zero_fills": c.get("zero_fills", 0),
            "distinct_type_operation_pairs": len(ops), "operations": ops,
            "ledger_events": c.get("ledger_allocs", 0) + c.get("ledger_frees", 0),
            "per_build_cases": res.per_cfg_cases, "builds": [x.describe() for x in cfgs],
            "histories_under_memcheck": mc,
            "cases_not_explored": res.unexplored,
        }
        return v.finish(cov, ["capacities are never compared with the model, only capacity >= size",
                              "InsertAt(ch, Length()) is the no-op its guard documents"])
    finally:
        vlib.cleanup(wd)
