"""C20: all 1,112,064 scalar values x {UTF-8,UTF-16,UTF-32,wchar_t} x {direct, \\u upper/lower, embedded, key}.
Oracle tables come from python3's codecs at check time. Identical in both tiers (exhaustive)."""
import os
import struct
import vlib


def write_tables(d):
    u8 = bytearray(0x110000 * 5)
    u16 = bytearray(0x110000 * 5)
    for cp in range(0x110000):
        if 0xD800 <= cp <= 0xDFFF:
            continue
        ch = chr(cp)
        b = ch.encode("utf-8")
        u8[cp * 5] = len(b)
        u8[cp * 5 + 1:cp * 5 + 1 + len(b)] = b
        w = ch.encode("utf-16-le")
        u16[cp * 5] = len(w) // 2
        u16[cp * 5 + 1:cp * 5 + 1 + len(w)] = w
    with open(os.path.join(d, "utf8.bin"), "wb") as f:
        f.write(u8)
    with open(os.path.join(d, "utf16.bin"), "wb") as f:
        f.write(u16)


def run(tier, seed):
    v = vlib.Verdict("C20", tier, seed)
    wd = vlib.workdir("C20")
    try:
        write_tables(wd)
        cfgs = [vlib.Config("c20", "asan", "none", 1, 1), vlib.Config("c20", "asan", "avx2", 1, 0)]
        bins = vlib.build_all(cfgs)
        byname = {c.name(): c for c in cfgs}
        extra = ["--opt", "tables=" + wd]
        # blocks 0..0x10FF; the hooks-off/AVX2 build repeats every 4th block (growth paths of the stream)
        plan = [(cfgs[0].name(), 0, 0x1100, extra)]
        plan.append((cfgs[1].name(), 0, 0x1100, extra) if tier == "thorough" else (cfgs[1].name(), 0x0, 0x440, extra))
        res = vlib.run_cases(bins, plan, seed, wd)
        v.absorb(res, byname, seed, {n: extra for n in byname}, floor_cases=0x1100)
        c = res.counters
        cov = {
            "evaluations": c.get("parses", 0) + c.get("direct", 0),
            "distinct_nontrivial": len(res.distinct) * 256,
            "rule": "enumeration: every scalar value U+0000..U+10FFFF except surrogates, each in 4 character widths x "
                    "(direct encoder + \\uXXXX upper + lower + embedded-in-longer-string + object key); a case is a "
                    "block of 256 code points; distinct_nontrivial = distinct code points enumerated (non-surrogate "
                    "blocks x 256), all non-trivial because each is compared with python's codec output",
            "samples": res.samples[:6],
            "exhaustive": len(res.distinct) == 0x1100 - 8,
            "blocks_enumerated": len(res.distinct),
            "parses": c.get("parses", 0), "direct_encodings": c.get("direct", 0),
            "code_points_x_units": c.get("code_points_x_units", 0),
            "builds": [x.describe() for x in cfgs],
            "ledger_events": c.get("ledger_allocs", 0) + c.get("ledger_frees", 0),
            "cases_not_explored": res.unexplored,
        }
        return v.finish(cov, ["python3 str.encode is the reference for UTF-8/UTF-16; UTF-32 is the identity"])
    finally:
        vlib.cleanup(wd)
