"""C05: JSON::Parse on arbitrary code-unit strings is memory-safe and terminates.
Monitors: ASan + UBSan subset, exact-size heap buffers and PROT_NONE guard pages (read-only input), CPU watchdog,
allocation ledger; deep nesting also on the default 8 MiB stack with the plain -O2 and -O0 builds."""
import os

import vlib


def run(tier, seed):
    v = vlib.Verdict("C05", tier, seed)
    wd = vlib.workdir("C05")
    try:
        n = 400000 if tier == "thorough" else 16000
        cfgs = [vlib.Config("json", "asan", "sse2", 1, 1), vlib.Config("json", "asan", "none", 1, 0),
                vlib.Config("json", "asan", "avx2", 1, 1), vlib.Config("json", "plain", "none", 1, 0),
                vlib.Config("json", "plain0", "sse2", 1, 0)]
        bins = vlib.build_all(cfgs)
        byname = {c.name(): c for c in cfgs}
        m = ["--opt", "mode=c05"]
        d = ["--opt", "mode=deep"]
        plan = [(cfgs[0].name(), 0, n, m), (cfgs[1].name(), n, n + n // 2, m), (cfgs[2].name(), n + n // 2, 2 * n, m),
                (cfgs[0].name(), 0, 96, d)]
        res = vlib.run_cases(bins, plan, seed, wd, timeout_is_violation=True)
        # default 8 MiB stack, uninstrumented builds: only a crash here counts as stack exhaustion
        res2 = vlib.run_cases(bins, [(cfgs[3].name(), 0, 192, d), (cfgs[4].name(), 0, 96, d)], seed, wd, stack_mb=8,
                              timeout_is_violation=True)
        v.absorb(res, byname, seed, floor_cases=n)
        v.absorb(res2, byname, seed, floor_cases=100)
        fuzz_stats = None
        if tier == "thorough":
            seeds = [bytes([i % 4]) + d for i, d in enumerate([
                b'[1,{"a":"\\u00e9\\ud83d\\ude00","b":[true,false,null,-1.5e3]}]', b'{"k":[[],{}],"n":18446744073709551615,"s":"\\"\\\\/\\b\\f\\n\\r\\t"}',
                b' [ 0.1 , 1e-7 , -0 , 1E+22 ] ', b'{"a":{"a":{"a":{"a":[[[[1]]]]}}}}', b'["\\uD83D\\uDE00x", "\\u0041"]', b'tru', b'{"abc', b'[1,2'])]
            fuzz_stats = vlib.fuzz_stage(v, "C05", "fuzz_json", seed, 4000000, 14, 512, seeds, wd, dictionary="json.dict")
        c = res.counters
        cov = {
            "evaluations": c.get("parses", 0) + res2.counters.get("parses", 0),
            "distinct_nontrivial": len(res.distinct | res2.distinct),
            "rule": "a case = one generated RFC 8259 container document (<= 4 KiB) plus: all/48 prefixes, 40 byte/token "
                    "mutations (replace/insert/delete/splice, NULs), keyword prefixes followed by NULs, 20 hostile seeds "
                    "(unterminated keys/strings/escapes, lone brackets, whitespace only) alone and appended to a prefix, "
                    "6 random soups; char/char16_t/char32_t/wchar_t rotate per input; 1 in 4 inputs sits against a "
                    "PROT_NONE page (read-only mapping), the rest in exact-size malloc blocks; accepted results are walked "
                    "and stringified. distinct_nontrivial counts distinct base documents plus distinct nesting cases",
            "samples": (res.samples + res2.samples)[:8],
            "accepted": c.get("accepted", 0), "rejected": c.get("rejected", 0),
            "prefix_cuts": c.get("prefix_cuts", 0), "mutations": c.get("mutations", 0),
            "keyword_nul_inputs": c.get("keyword_nul_inputs", 0), "seed_inputs": c.get("seed_inputs", 0),
            "soup_inputs": c.get("soup_inputs", 0),
            "max_depth_sanitized": c.get("max_depth", 0), "max_depth_default_stack": res2.counters.get("max_depth", 0),
            "value_nodes_walked": c.get("value_nodes_walked", 0),
            "ledger_events": c.get("ledger_allocs", 0) + c.get("ledger_frees", 0),
            "per_build_cases": {**res.per_cfg_cases, **{k + "(8MiB stack)": x for k, x in res2.per_cfg_cases.items()}},
            "builds": [x.describe() for x in cfgs],
            "cases_not_explored": res.unexplored + res2.unexplored,
            "libfuzzer_stage": fuzz_stats if fuzz_stats else "thorough tier only",
        }
        return v.finish(cov, ["inputs <= 4 KiB, nesting <= 1024 (the statement promises 512)",
                              "a CPU-watchdog expiry (20 s on a <= 4 KiB input) counts as non-termination"])
    finally:
        vlib.cleanup(wd)
