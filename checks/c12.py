"""C12: Value<Char_T> vs the abstract JSON document model after every step of random operation histories."""
import vlib


def run(tier, seed):
    v = vlib.Verdict("C12", tier, seed)
    wd = vlib.workdir("C12")
    try:
        n = 3000000 if tier == "thorough" else 150000
        cfgs = [vlib.Config("c12", "asan", "sse2", 1, 1, unit="char"), vlib.Config("c12", "asan", "none", 1, 0, unit="char16_t"),
                vlib.Config("c12", "plain", "avx2", 1, 0, unit="char"), vlib.Config("c12", "asan", "avx2", 1, 1, unit="char32_t")]
        bins = vlib.build_all(cfgs)
        byname = {c.name(): c for c in cfgs}
        q = n // 5
        mc = 6000 if tier == "thorough" else 480
        plan = [(cfgs[0].name(), 0, q, []), (cfgs[1].name(), q, 2 * q, []), (cfgs[3].name(), 2 * q, 3 * q, []),
                (cfgs[2].name(), 3 * q, n, []),
                # uninitialised reads are invisible to ASan: a sample of histories runs under valgrind memcheck
                (cfgs[2].name(), n, n + mc, [], vlib.MEMCHECK)]
        res = vlib.run_cases(bins, plan, seed, wd)
        v.absorb(res, byname, seed, floor_cases=n)
        c = res.counters
        ops = {k[3:]: c[k] for k in c if k.startswith("op_")}
        cov = {
            "evaluations": c.get("steps", 0),
            "distinct_nontrivial": len(res.distinct),
            "rule": "a history = 15..120 operations over 4 Value roots; the target of each operation is a root or a nested "
                    "member/element reached through defined members (aliasing between roots by copy, move, append, merge, "
                    "pointer-to-value views of root 3); operations: every assignment overload (scalars of all widths, "
                    "literal, String copy/move/pointer, StringView, Array/Object copy/move, Value copy/move, self, from own "
                    "descendant), [] by literal/String/StringView/index, Get, Insert, every += overload, Merge copy/move, "
                    "Remove by literal/String/length, RemoveIndex, Reset, Compress, Set/AddPointerToValue, sized "
                    "constructors, copy/move construction; after EVERY step all roots are walked through the public readers "
                    "(Type/Is*, Size, GetKey/GetValue by position and by key, strings unit by unit, numbers by kind and "
                    "bits) against the model; typed getters and coercions are checked on sampled nodes. "
                    "distinct_nontrivial = distinct histories",
            "samples": res.samples[:6],
            "steps": c.get("steps", 0), "nodes_compared": c.get("nodes_compared", 0),
            "coercion_checks": c.get("coercion_checks", 0), "distinct_operations": len(ops), "operations": ops,
            "max_tree_nodes": c.get("max_nodes", 0), "max_depth": c.get("max_depth", 0),
            "ledger_events": c.get("ledger_allocs", 0) + c.get("ledger_frees", 0),
            "per_build_cases": res.per_cfg_cases, "builds": [x.describe() for x in cfgs],
            "histories_under_memcheck": mc,
            "cases_not_explored": res.unexplored,
        }
        return v.finish(cov, [
            "positional access into an object is compared only while it has no removed entries (stated in the quantifier)",
            "object self-merge (v += v on an object) and self-append of a non-array are not generated",
            "operator=(ValueType) (raw tag setter) and SetPointerToValue(nullptr) are not generated: their effect is not part of the statement",
            "double -> integer getters only for in-range values"])
    finally:
        vlib.cleanup(wd)
