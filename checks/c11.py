"""C11: format(17 digits) -> parse is the identity on finite doubles (bitwise); floats with 9 digits.
quick: sampled doubles (per binade, near powers of two / ten, subnormals, ties) + a strided float sweep;
thorough: 10x the doubles and ALL 2^32 floats."""
from checks.common_digit import run_digit


def run(tier, seed):
    if tier == "thorough":
        plain, asan = 120000, 4000
        extra = [(0, 0, 65536, "c11f")]
    else:
        plain, asan = 9000, 600
        # quick float sweep: 512 of the 65536 blocks of 2^16 floats, offset by the seed
        start = (seed * 7919) % 65024
        extra = [(0, start, start + 512, "c11f")]

    def cov(cv, c, res):
        cv["evaluations"] = c.get("c11_doubles", 0) + c.get("c11_floats", 0)
        cv["binade_groups_covered_of_32"] = len([k for k in c if k.startswith("binade_")])
        cv["floats_exhaustive"] = (tier == "thorough")
        cv["doubles"] = c.get("c11_doubles", 0)
        cv["floats"] = c.get("c11_floats", 0)

    return run_digit(
        "C11", tier, seed, "c11", plain, asan,
        "doubles drawn from 10 families (uniform bit patterns, per-binade, +-3 ulp around powers of two and ten, "
        "subnormals, k/10^j decimal ties, trailing-zero integers, specials incl. +-0 / max / min subnormal); a value is "
        "non-trivial when it is finite; distinct = distinct bit patterns (doubles) plus distinct 2^16-float blocks",
        ["bit comparison needs no reference; integers printed without exponent are converted with double(n)"],
        extra_plans=extra, floor=1000, cov_extra=cov)
