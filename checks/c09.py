"""C09: text -> number against glibc strtod (correctly rounded) and exact 128-bit integer classification."""
from checks.common_digit import run_digit


def run(tier, seed):
    plain, asan = (400000, 20000) if tier == "thorough" else (12000, 1200)

    def cov(cv, c, res):
        cv["evaluations"] = c.get("c09_numerals", 0)
        cv["classes"] = {k[10:]: c[k] for k in c if k.startswith("c09_class_")}
        cv["exactly_rounded"] = c.get("c09_exact", 0)
        cv["one_ulp_off_allowed"] = c.get("c09_one_ulp_off", 0)

    return run_digit(
        "C09", tier, seed, "c09", plain, asan,
        "numerals of [+-]?digits(.digits)?([eE][+-]?digits)? from 12 families: integers (1-25 digits), 2^63/2^64/10^19 "
        "boundaries, decimals, exponent forms within double range, 20-400 digit mantissas, exact halfway points between "
        "adjacent doubles (from the 80-bit exact midpoint) and points just above/below, 1.79e308..1e99999999999, "
        "subnormal range, zero forms, and must-reject malformed forms; each optionally followed by , ] } space or newline "
        "to observe the consumed length; all three character widths; exact-size heap buffers under ASan for a share; "
        "distinct = distinct numeral texts",
        ["glibc strtod is correctly rounded", "numerals below half the smallest subnormal are not generated "
         "(the statement does not say whether 0 or not-a-number is right)",
         "a Real whose value is NaN is accepted as 'reported as not-a-number' for overflowing numerals"],
        floor=1000, cov_extra=cov)
