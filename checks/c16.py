"""C16: every allocation released exactly once, nothing used after release.
Monitors: the allocation ledger behind Memory::Allocate/Deallocate (per-case conservation, double/foreign release),
AddressSanitizer (use-after-free, double-free) and LeakSanitizer at process exit, over the workloads the statement names."""
import os

import vlib


def run(tier, seed):
    v = vlib.Verdict("C16", tier, seed)
    wd = vlib.workdir("C16")
    try:
        k = 20 if tier == "thorough" else 1
        cfgs = [vlib.Config("json", "asan", "sse2", 1, 1), vlib.Config("c12", "asan", "sse2", 1, 1, unit="char"),
                vlib.Config("c12", "asan", "none", 1, 0, unit="char16_t"), vlib.Config("c13", "asan", "none", 1, 1),
                vlib.Config("c14", "asan", "avx2", 1, 0), vlib.Config("c13", "asan", "sse2", 1, 0)]
        have_tpl = os.path.exists(os.path.join(vlib.VERIF, "harness", "tmpl.cpp"))
        if have_tpl:
            cfgs += [vlib.Config("tmpl", "asan", "sse2", 1, 1, unit="char"), vlib.Config("tmpl", "asan", "none", 0, 0, unit="char16_t")]
        bins = vlib.build_all(cfgs)
        byname = {c.name(): c for c in cfgs}
        base = 500000 + (seed % 1000) * 1000  # a case range of its own (not the one C05/C12-C14 use)
        plan = [
            (cfgs[0].name(), base, base + 6000 * k, ["--opt", "mode=c05"]),      # rejected / mutated / truncated JSON
            (cfgs[0].name(), base, base + 6000 * k, ["--opt", "mode=c07"]),      # every prefix of valid documents
            (cfgs[1].name(), base, base + 8000 * k, ["--opt", "c08=1"]),         # Value histories + stringify/parse
            (cfgs[2].name(), base, base + 6000 * k, []),
            (cfgs[3].name(), base, base + 8000 * k, []),                           # hash arrays (merge-by-move, rename, sort)
            (cfgs[5].name(), base, base + 4000 * k, []),
            (cfgs[4].name(), base, base + 12000 * k, ["--opt", "mode=hist"]),    # containers (adopt/detach, self append)
        ]
        if have_tpl:
            plan += [(cfgs[6].name(), base, base + 4000 * k, ["--opt", "mode=c16"]),
                     (cfgs[7].name(), base, base + 3000 * k, ["--opt", "mode=c16"])]
        res = vlib.run_cases(bins, plan, seed, wd)
        v.absorb(res, byname, seed, floor_cases=30000 * k)
        c = res.counters
        cov = {
            "evaluations": res.cases,
            "distinct_nontrivial": len(res.distinct),
            "rule": "cases of the JSON (rejected, mutated, every prefix), Value-history, hash-array, container "
                    + ("and template (malformed templates, tag-cache copy/move/clear/reuse) " if have_tpl else "")
                    + "harnesses, all under ASan with the allocation ledger armed: at the end of every case (all owners "
                    "destroyed) the ledger must be empty; a release of a block that is not live or a second allocation of a "
                    "live address stops the case; LeakSanitizer runs at process exit. distinct_nontrivial = distinct cases "
                    "(each performs at least one allocation)",
            "samples": res.samples[:8],
            "ledger_allocations": c.get("ledger_allocs", 0), "ledger_releases": c.get("ledger_frees", 0),
            "peak_live_blocks": c.get("ledger_peak_live", 0),
            "json_rejected_inputs": c.get("rejected", 0), "value_history_steps": c.get("steps", 0),
            "per_build_cases": res.per_cfg_cases, "builds": [x.describe() for x in cfgs],
            "template_workload_included": have_tpl,
            "cases_not_explored": res.unexplored,
        }
        if c.get("ledger_allocs", 0) != c.get("ledger_frees", 0) and not v.violations:
            v.inconclusive.append("ledger totals differ (%d vs %d) without a per-case report" % (c.get("ledger_allocs", 0), c.get("ledger_frees", 0)))
        return v.finish(cov, ["allocation failure is not injected", "the ledger observes the library's own allocation seam "
                              "(Memory::Allocate/Deallocate); ASan observes every heap access"])
    finally:
        vlib.cleanup(wd)
